"""C06: Python -> Lean translator for the small pure string functions of the sequence parsers.

Reads (stdlib `ast` only; nothing of cogent3 is imported or executed)

    parse/clustal.py   is_clustal_seq_line, delete_trailing_number
    parse/phylip.py    is_blank, _split_line, _get_header_info
    util/io.py         get_format_suffixes   (as a function of `filename.suffix` and `filename.suffixes`; `filename = Path(filename)`
                                              is the conversion that provides them, convention T5)

and writes lean/CogentModel/Gen/C06Str.lean (a pure function of the source text: unchanged source => unchanged file).
Props/C06Gen.lean proves every generated definition equal to the hand model (Model/Clustal.lean, Model/SeqFormats.lean)
for ALL arguments, so a semantic edit of one of these functions breaks a proof obligation.

Supported fragment -- anything else is a translation PROBLEM (reported, never skipped):
  statements   `x = e`; `if c: ...` whose body ends in `return` (the rest of the function is the else branch), `if/else`;
               `return e`; `return e1, e2` (a component that is `None` in some return makes that component `Option`);
               `try: int(e); return a  except ValueError: return b`  ->  `if pyIntOk e then a else b`;
               `a, b = list(map(int, l))` (l a list of str)  ->  the function returns `Except Err _`: the first failing `int()` or a
               list that has not exactly as many items as targets is `.error .valueError` (convention T4: `int` is the model's `pyInt`)
  expressions  names, str / small int constants, `None` (only as a returned tuple component),
               `not e`, `a and b`, `a or b` (operands are taken by their truth value; the result is a Bool -- convention T1),
               `s.strip() s.rstrip() s.split() s.isspace() s.startswith(lit) s.replace(c, "")` (c one character),
               `" ".join(l)`, `"".join(l)`, `s[a:b] s[a:] s[:b] l[:-1] l[-1] s[0]` (a, b names or non-negative constants),
               a tuple of str constants (a list), `[<e> for v in <list>]`, `l[0]`, `l[-2:]`, `e in <list>`, `x is None`, `x is not None`,
               `_wout_period.sub("", s)` (checked: `_wout_period = re.compile(r"^\.")`), `s.lower()` (ASCII), `obj.attr` of ATTR_PARAMS,
               `if c: x = e1 elif ...: x = e2 else: x = e3` (one variable, every branch one assignment; `None` makes it an Option),
               `len(x)`, `e1 < e2`, `<=`, `>`, `>=`, `==`, `!=` between `len(...)`s and non-negative constants
Conventions (stated in the generated header too)
  T1  a Python `and`/`or` returns one of its operands; every caller of the translated predicates uses the result only as a
      condition (`filter(is_clustal_seq_line, ...)`), so the translation is its truth value.
  T2  `s[0]` / `l[-1]` raise IndexError on an empty operand; translated as the empty string (PyStr.at0 / PyStr.lastD).
  T3  `int(tok)` succeeds iff Clustal.pyIntOk tok (sign, ASCII digits, single underscores between digits; tok has no blanks).
"""
from __future__ import annotations

import ast
from pathlib import Path

FUNCS = [("parse/clustal.py", "is_clustal_seq_line"), ("parse/clustal.py", "delete_trailing_number"),
         ("parse/phylip.py", "is_blank"), ("parse/phylip.py", "_split_line"), ("parse/phylip.py", "_get_header_info"),
         ("util/io.py", "get_format_suffixes")]
# parameter types (everything else is inferred)
PARAM_TYPES = {"id_offset": "Nat"}
LEAN_NAME = {"is_clustal_seq_line": "is_clustal_seq_line", "delete_trailing_number": "delete_trailing_number",
             "is_blank": "is_blank", "_split_line": "split_line", "_get_header_info": "get_header_info",
             "get_format_suffixes": "get_format_suffixes"}
# a parameter that is an object: its attributes read by the function become the parameters of the translation
ATTR_PARAMS = {"get_format_suffixes": {"filename": {"suffix": ("filename_suffix", "Str"), "suffixes": ("filename_suffixes", "List Str")}}}
OPT = "Option Str"
STR, BOOL, LST, NAT, NONE, INT = "Str", "Bool", "List Str", "Nat", "None", "Int"


class TranslationError(Exception):
    pass


def _lit(s: str) -> str:
    return "[" + ", ".join("'" + ("\\\\" if c == "\\" else "\\'" if c == "'" else c) + "'" for c in s) + "]" if s else "([] : Str)"


class Fn:
    def __init__(self, node: ast.FunctionDef):
        self.node = node
        self.attrs = ATTR_PARAMS.get(node.name, {})
        self.env = {}
        self.module = None
        for a in node.args.args:
            if a.arg in self.attrs:
                for lean, ty in self.attrs[a.arg].values():
                    self.env[lean] = ty
            else:
                self.env[a.arg] = PARAM_TYPES.get(a.arg, STR)
        self.nparams = len(self.env)
        if node.args.vararg or node.args.kwarg or node.args.kwonlyargs or node.args.defaults:
            raise TranslationError(f"{node.name}: only plain positional parameters are supported")
        self.ret_arity = None
        self.ret_none = set()  # tuple positions that are None in some return
        self.ret_type = None
        self.fallible = any(self._int_unpack(n) is not None for n in ast.walk(node))
        for n in ast.walk(node):
            if isinstance(n, ast.Return):
                self._scan_return(n)

    def _scan_return(self, n):
        v = n.value
        if v is None:
            raise TranslationError(f"{self.node.name}: bare return")
        elts = v.elts if isinstance(v, ast.Tuple) else None
        ar = len(elts) if elts is not None else 0
        if self.ret_arity is not None and self.ret_arity != ar:
            raise TranslationError(f"{self.node.name}: returns of different shapes")
        self.ret_arity = ar
        for i, e in enumerate(elts or []):
            if isinstance(e, ast.Constant) and e.value is None:
                self.ret_none.add(i)

    @staticmethod
    def _if_assign(s):
        """`if c1: x = e1  elif c2: x = e2 ... else: x = en` -> (x, [(c1, e1), ...], en)"""
        arms, name = [], None
        while isinstance(s, ast.If):
            if not (len(s.body) == 1 and isinstance(s.body[0], ast.Assign) and len(s.body[0].targets) == 1
                    and isinstance(s.body[0].targets[0], ast.Name) and len(s.orelse) == 1):
                return None
            n = s.body[0].targets[0].id
            if name not in (None, n):
                return None
            name = n
            arms.append((s.test, s.body[0].value))
            s = s.orelse[0]
        if not arms or not (isinstance(s, ast.Assign) and len(s.targets) == 1 and isinstance(s.targets[0], ast.Name)
                            and s.targets[0].id == name):
            return None
        return name, arms, s.value

    def _opt_val(self, v):
        if isinstance(v, ast.Constant) and v.value is None:
            return "none", NONE
        return self.expr(v)

    @staticmethod
    def _int_unpack(s):
        """`a, b, ... = list(map(int, <expr>))` -> (names, expr)"""
        if isinstance(s, ast.Assign) and len(s.targets) == 1 and isinstance(s.targets[0], ast.Tuple) \
                and all(isinstance(t, ast.Name) for t in s.targets[0].elts) and isinstance(s.value, ast.Call) \
                and isinstance(s.value.func, ast.Name) and s.value.func.id == "list" and len(s.value.args) == 1 and not s.value.keywords:
            m = s.value.args[0]
            if isinstance(m, ast.Call) and isinstance(m.func, ast.Name) and m.func.id == "map" and len(m.args) == 2 and not m.keywords \
                    and isinstance(m.args[0], ast.Name) and m.args[0].id == "int":
                return [t.id for t in s.targets[0].elts], m.args[1]
        return None

    # ---- expressions: returns (lean text, type) ----
    def truth(self, e):
        t, ty = self.expr(e)
        if ty == BOOL:
            return t
        if ty == STR:
            return f"PyStr.truthy {self.par(t)}"
        if ty == LST:
            return f"!({t}).isEmpty"
        raise TranslationError(f"{self.node.name}: truth value of a {ty}")

    @staticmethod
    def par(t):
        return t if t.replace("_", "a").replace(".", "a").isalnum() or (t.startswith("(") and t.endswith(")")) or t.startswith("[") else f"({t})"

    def nat(self, e):
        if isinstance(e, ast.Constant) and isinstance(e.value, int) and not isinstance(e.value, bool) and e.value >= 0:
            return str(e.value)
        if isinstance(e, ast.Name) and self.env.get(e.id) == NAT:
            return e.id
        raise TranslationError(f"{self.node.name}: slice bound {ast.dump(e)} is not a name of type int or a non-negative constant")

    def expr(self, e):
        f = self.node.name
        if isinstance(e, ast.Name):
            if e.id not in self.env:
                raise TranslationError(f"{f}: unknown name {e.id}")
            return e.id, self.env[e.id]
        if isinstance(e, ast.Constant):
            if isinstance(e.value, str):
                return _lit(e.value), STR
            if isinstance(e.value, bool):
                return ("true" if e.value else "false"), BOOL
            raise TranslationError(f"{f}: constant {e.value!r}")
        if isinstance(e, ast.UnaryOp) and isinstance(e.op, ast.Not):
            return f"!({self.truth(e.operand)})", BOOL
        if isinstance(e, ast.BoolOp):
            op = " && " if isinstance(e.op, ast.And) else " || "
            return "(" + op.join(self.par(self.truth(v)) for v in e.values) + ")", BOOL
        if isinstance(e, ast.Attribute) and isinstance(e.value, ast.Name) and e.value.id in self.attrs:
            if e.attr not in self.attrs[e.value.id]:
                raise TranslationError(f"{f}: attribute {e.value.id}.{e.attr} is not declared")
            return self.attrs[e.value.id][e.attr]
        if isinstance(e, ast.Tuple) and e.elts and all(isinstance(x, ast.Constant) and isinstance(x.value, str) for x in e.elts):
            return "[" + ", ".join(_lit(x.value) for x in e.elts) + "]", LST
        if isinstance(e, ast.ListComp) and len(e.generators) == 1 and not e.generators[0].ifs and not e.generators[0].is_async \
                and isinstance(e.generators[0].target, ast.Name):
            src, sty = self.expr(e.generators[0].iter)
            if sty != LST:
                raise TranslationError(f"{f}: comprehension over a {sty}")
            v = e.generators[0].target.id
            if v in self.env:
                raise TranslationError(f"{f}: comprehension variable {v} shadows a name")
            self.env[v] = STR
            body, bty = self.expr(e.elt)
            del self.env[v]
            if bty != STR:
                raise TranslationError(f"{f}: comprehension of a {bty}")
            return f"{self.par(src)}.map (fun {v} => {body})", LST
        if isinstance(e, ast.Compare) and len(e.ops) == 1 and isinstance(e.ops[0], (ast.Is, ast.IsNot)) \
                and isinstance(e.comparators[0], ast.Constant) and e.comparators[0].value is None:
            t, ty = self.expr(e.left)
            if ty != OPT:
                raise TranslationError(f"{f}: `is None` test of a {ty}")
            return f"{self.par(t)}.{'isNone' if isinstance(e.ops[0], ast.Is) else 'isSome'}", BOOL
        if isinstance(e, ast.Compare) and len(e.ops) == 1 and isinstance(e.ops[0], (ast.In, ast.NotIn)):
            l, lty = self.expr(e.left)
            r, rty = self.expr(e.comparators[0])
            if lty != STR or rty != LST:
                raise TranslationError(f"{f}: `{lty} in {rty}`")
            t = f"{self.par(r)}.contains {self.par(l)}"
            return (f"!({t})" if isinstance(e.ops[0], ast.NotIn) else t), BOOL
        if isinstance(e, ast.Call) and isinstance(e.func, ast.Name) and e.func.id == "len" and len(e.args) == 1 and not e.keywords:
            t, ty = self.expr(e.args[0])
            if ty not in (STR, LST):
                raise TranslationError(f"{f}: len of a {ty}")
            return f"{self.par(t)}.length", NAT
        if isinstance(e, ast.Call):
            return self.call(e)
        if isinstance(e, ast.Subscript):
            return self.subscript(e)
        OPS = {ast.Lt: "<", ast.LtE: "≤", ast.Gt: ">", ast.GtE: "≥", ast.Eq: "=", ast.NotEq: "≠"}
        if isinstance(e, ast.Compare) and len(e.ops) == 1 and type(e.ops[0]) in OPS:
            def num(x):
                if isinstance(x, ast.Constant) and isinstance(x.value, int) and not isinstance(x.value, bool) and x.value >= 0:
                    return str(x.value)
                t, ty = self.expr(x)
                if ty != NAT:
                    raise TranslationError(f"{f}: comparison of a {ty}")
                return t
            return f"decide ({num(e.left)} {OPS[type(e.ops[0])]} {num(e.comparators[0])})", BOOL
        raise TranslationError(f"{f}: unsupported expression {type(e).__name__}")

    def call(self, e):
        f = self.node.name
        if e.keywords:
            raise TranslationError(f"{f}: keyword arguments")
        if not isinstance(e.func, ast.Attribute):
            raise TranslationError(f"{f}: call of {ast.dump(e.func)[:60]}")
        m = e.func.attr
        # "<lit>".join(l)
        if m == "join" and isinstance(e.func.value, ast.Constant) and isinstance(e.func.value.value, str) and len(e.args) == 1:
            a, ty = self.expr(e.args[0])
            if ty != LST:
                raise TranslationError(f"{f}: join of a {ty}")
            sep = e.func.value.value
            if sep == " ":
                return f"Clustal.joinSp {self.par(a)}", STR
            if sep == "":
                return f"PyStr.joinEmpty {self.par(a)}", STR
            raise TranslationError(f"{f}: join with separator {sep!r}")
        if m == "sub" and isinstance(e.func.value, ast.Name) and e.func.value.id == "_wout_period" and len(e.args) == 2 \
                and isinstance(e.args[0], ast.Constant) and e.args[0].value == "":
            self.check_const("_wout_period", "re.compile('^\\\\.')")
            a, ty = self.expr(e.args[1])
            if ty != STR:
                raise TranslationError(f"{f}: _wout_period.sub of a {ty}")
            return f"PyStr.woutPeriod {self.par(a)}", STR
        r, ty = self.expr(e.func.value)
        if ty != STR:
            raise TranslationError(f"{f}: method .{m} of a {ty}")
        r = self.par(r)
        if m == "lower" and not e.args:
            return f"PyStr.lower {r}", STR
        if m in ("strip", "rstrip", "split", "isspace") and not e.args:
            return {"strip": (f"strip {r}", STR), "rstrip": (f"Clustal.rstrip {r}", STR), "split": (f"splitWs {r}", LST),
                    "isspace": (f"PyStr.isspace {r}", BOOL)}[m]
        if m == "startswith" and len(e.args) == 1 and isinstance(e.args[0], ast.Constant) and isinstance(e.args[0].value, str):
            return f"PyStr.startswith {r} {_lit(e.args[0].value)}", BOOL
        if m == "replace" and len(e.args) == 2 and all(isinstance(a, ast.Constant) and isinstance(a.value, str) for a in e.args) \
                and len(e.args[0].value) == 1 and e.args[1].value == "":
            return f"PyStr.removeChar {_lit(e.args[0].value)[1:-1]} {r}", STR
        raise TranslationError(f"{f}: unsupported method call .{m}({', '.join(ast.dump(a)[:30] for a in e.args)})")

    def check_const(self, name, want):
        body = list(self.module.body if self.module else [])
        for n in list(body):  # `from cogent3.a.b import name`: the constant lives in a/b.py
            if isinstance(n, ast.ImportFrom) and n.module and n.module.startswith("cogent3.") and any(a.name == name and a.asname is None for a in n.names):
                try:
                    body = ast.parse((self.src / (n.module[len("cogent3."):].replace(".", "/") + ".py")).read_text()).body
                except (OSError, SyntaxError):
                    raise TranslationError(f"{self.node.name}: cannot read the module {n.module} that defines {name}")
        for n in body:
            if isinstance(n, ast.Assign) and len(n.targets) == 1 and isinstance(n.targets[0], ast.Name) and n.targets[0].id == name:
                if ast.unparse(n.value) == want:
                    return
                raise TranslationError(f"{self.node.name}: {name} is {ast.unparse(n.value)}, expected {want}")
        raise TranslationError(f"{self.node.name}: module constant {name} not found")

    def subscript(self, e):
        f = self.node.name
        v, ty = self.expr(e.value)
        v = self.par(v)
        s = e.slice
        neg1 = lambda x: isinstance(x, ast.UnaryOp) and isinstance(x.op, ast.USub) and isinstance(x.operand, ast.Constant) and x.operand.value == 1
        if isinstance(s, ast.Slice):
            if s.step is not None:
                raise TranslationError(f"{f}: slice step")
            if ty not in (STR, LST):
                raise TranslationError(f"{f}: slice of a {ty}")
            if s.lower is None and s.upper is not None and neg1(s.upper):
                return f"{v}.dropLast", ty
            if s.upper is None and isinstance(s.lower, ast.UnaryOp) and isinstance(s.lower.op, ast.USub) \
                    and isinstance(s.lower.operand, ast.Constant) and s.lower.operand.value == 2 and ty == LST:
                return f"PyStr.lastTwo {v}", ty
            if s.lower is not None and s.upper is None:
                return f"{v}.drop {self.nat(s.lower)}", ty
            if s.lower is None and s.upper is not None:
                return f"{v}.take {self.nat(s.upper)}", ty
            if s.lower is not None and s.upper is not None:
                return f"PyStr.slice {v} {self.nat(s.lower)} {self.nat(s.upper)}", ty
            return v, ty
        if neg1(s) and ty == LST:
            return f"PyStr.lastD {v}", STR
        if isinstance(s, ast.Constant) and s.value == 0 and ty == STR:
            return f"PyStr.at0 {v}", STR
        if isinstance(s, ast.Constant) and s.value == 0 and ty == LST:
            return f"PyStr.headD {v}", STR
        raise TranslationError(f"{f}: unsupported subscript {ast.dump(s)[:60]}")

    # ---- statements ----
    def ret(self, n, ind):
        v = n.value
        if self.ret_arity:
            parts = []
            for i, x in enumerate(v.elts):
                if isinstance(x, ast.Constant) and x.value is None:
                    parts.append("none")
                    continue
                t, ty = self.expr(x)
                if ty == OPT:
                    if i not in self.ret_none:
                        raise TranslationError(f"{self.node.name}: an Option is returned where no return has None")
                    self._note_ret(("tuple", i), STR)
                    parts.append(t)
                    continue
                self._note_ret(("tuple", i), ty)
                parts.append(f"some {self.par(t)}" if i in self.ret_none else t)
            return ind + (".ok " if self.fallible else "") + "(" + ", ".join(parts) + ")"
        t, ty = self.expr(v)
        self._note_ret("value", ty)
        return ind + (f".ok ({t})" if self.fallible else t)

    def _note_ret(self, key, ty):
        self.ret_type = self.ret_type or {}
        if self.ret_type.setdefault(key, ty) != ty:
            raise TranslationError(f"{self.node.name}: returns of different types ({self.ret_type[key]} / {ty})")

    def block(self, stmts, ind):
        f = self.node.name
        if not stmts:
            raise TranslationError(f"{f}: a path falls off the end of the function (implicit return None)")
        s, rest = stmts[0], stmts[1:]
        if isinstance(s, ast.Expr) and isinstance(s.value, ast.Constant) and isinstance(s.value.value, str):
            return self.block(rest, ind)  # docstring
        if isinstance(s, ast.Return):
            return self.ret(s, ind)
        if isinstance(s, ast.Assign) and len(s.targets) == 1 and isinstance(s.targets[0], ast.Name) and s.targets[0].id in self.attrs \
                and isinstance(s.value, ast.Call) and isinstance(s.value.func, ast.Name) and s.value.func.id == "Path" \
                and len(s.value.args) == 1 and isinstance(s.value.args[0], ast.Name) and s.value.args[0].id == s.targets[0].id:
            return self.block(rest, ind)  # convention T5
        ia = self._if_assign(s)
        if ia is not None:
            name, arms, last = ia
            vals = [self._opt_val(v) for _, v in arms] + [self._opt_val(last)]
            opt = any(ty == NONE for _, ty in vals)
            tys = {ty for _, ty in vals if ty != NONE}
            if len(tys) != 1 or (opt and tys != {STR}):
                raise TranslationError(f"{f}: branches of the assignment to {name} have types {sorted(tys)}")
            ty = OPT if opt else tys.pop()
            wrap = (lambda t, vty: "none" if vty == NONE else f"some {self.par(t)}") if opt else (lambda t, vty: t)
            text = ""
            for (c, _), (t, vty) in zip(arms, vals):
                text += f"if {self.truth(c)} then {wrap(t, vty)} else "
            text += wrap(*vals[-1])
            if self.env.get(name, ty) != ty:
                raise TranslationError(f"{f}: {name} changes its type")
            self.env[name] = ty
            return f"{ind}let {name} : {ty} := {text}\n" + self.block(rest, ind)
        iu = self._int_unpack(s)
        if iu is not None:
            names, src = iu
            t, ty = self.expr(src)
            if ty != LST:
                raise TranslationError(f"{f}: map(int, ...) over a {ty}")
            for n in names:
                if self.env.get(n, INT) != INT:
                    raise TranslationError(f"{f}: {n} changes its type")
                self.env[n] = INT
            return (f"{ind}match PyStr.mapInt {self.par(t)} with\n{ind}| .error e => .error e\n{ind}| .ok [{', '.join(names)}] =>\n"
                    + self.block(rest, ind + "  ") + f"\n{ind}| .ok _ => .error .valueError")
        if isinstance(s, ast.Assign) and len(s.targets) == 1 and isinstance(s.targets[0], ast.Name):
            t, ty = self.expr(s.value)
            name = s.targets[0].id
            if self.env.get(name, ty) != ty:
                raise TranslationError(f"{f}: {name} changes its type")
            self.env[name] = ty
            return f"{ind}let {name} : {ty} := {t}\n" + self.block(rest, ind)
        if isinstance(s, ast.If):
            c = self.truth(s.test)
            env0 = dict(self.env)
            a = self.block(s.body, ind + "  ")
            self.env = dict(env0)
            if s.orelse:
                if rest:
                    raise TranslationError(f"{f}: statements after an if/else")
                b = self.block(s.orelse, ind + "  ")
            else:
                b = self.block(rest, ind + "  ")
            return f"{ind}if {c} then\n{a}\n{ind}else\n{b}"
        if isinstance(s, ast.Try):
            ok = (len(s.body) == 2 and isinstance(s.body[0], ast.Expr) and isinstance(s.body[0].value, ast.Call)
                  and isinstance(s.body[0].value.func, ast.Name) and s.body[0].value.func.id == "int" and len(s.body[0].value.args) == 1
                  and not s.body[0].value.keywords and isinstance(s.body[1], ast.Return) and len(s.handlers) == 1
                  and isinstance(s.handlers[0].type, ast.Name) and s.handlers[0].type.id == "ValueError" and s.handlers[0].name is None
                  and len(s.handlers[0].body) == 1 and isinstance(s.handlers[0].body[0], ast.Return)
                  and not s.orelse and not s.finalbody and not rest)
            if not ok:
                raise TranslationError(f"{f}: try statement is not `try: int(e); return a  except ValueError: return b`")
            t, ty = self.expr(s.body[0].value.args[0])
            if ty != STR:
                raise TranslationError(f"{f}: int() of a {ty}")
            a = self.ret(s.body[1], ind + "  ")
            b = self.ret(s.handlers[0].body[0], ind + "  ")
            return f"{ind}if Clustal.pyIntOk {self.par(t)} then\n{a}\n{ind}else\n{b}"
        raise TranslationError(f"{f}: unsupported statement {type(s).__name__}")

    def emit(self):
        params = list(self.env.items())[:self.nparams]
        body = self.block(self.node.body, "  ")
        if self.ret_arity:
            rt = " × ".join((f"Option {self.ret_type[('tuple', i)]}" if i in self.ret_none else self.ret_type[("tuple", i)])
                            for i in range(self.ret_arity))
        else:
            rt = self.ret_type["value"]
        if self.fallible:
            rt = f"Except Err ({rt})"
        sig = " ".join(f"({n} : {t})" for n, t in params)
        return f"def {LEAN_NAME[self.node.name]} {sig} : {rt} :=\n{body}\n"


HEADER = """/- GENERATED by translator/c06_str2lean.py from cogent3/parse/clustal.py, cogent3/parse/phylip.py and cogent3/util/io.py on every run -- do not edit.
   Conventions: T1 `and`/`or` are translated to their truth value; T2 `s[0]` / `l[-1]` of an empty operand (IndexError) is "";
   T3 `int(tok)` succeeds iff Clustal.pyIntOk tok; T4 in `a, b = list(map(int, l))` `int` is `pyInt` (sign + ASCII digits), a failing
   `int()` or a wrong number of items is `.error .valueError`; T5 `filename = Path(filename)`: the translation is a function of the
   attributes `filename.suffix` / `filename.suffixes` of that Path; `l[0]` / `l[-1]` of an empty list (IndexError) is "" (T2). -/
import CogentModel.Model.PyStr
namespace CogentModel.Gen.C06Str
open CogentModel CogentModel.SeqFormats

"""


def translate(src: Path):
    """-> (lean text | None, problems)"""
    problems, defs = [], []
    trees = {}
    for rel, name in FUNCS:
        path = src / rel
        try:
            tree = trees.setdefault(rel, ast.parse(path.read_text()))
        except (OSError, SyntaxError) as e:
            problems.append(f"{rel}: cannot be read/parsed ({type(e).__name__})")
            continue
        fns = [n for n in tree.body if isinstance(n, ast.FunctionDef) and n.name == name]
        if len(fns) != 1:
            problems.append(f"{rel}: expected exactly one module-level function {name}, found {len(fns)}")
            continue
        try:
            fn = Fn(fns[0])
            fn.module = tree
            fn.src = src
            defs.append(f"/-- `{name}` ({rel}) -/\n" + fn.emit())
        except TranslationError as e:
            problems.append(str(e))
    if problems:
        return None, problems
    return HEADER + "\n".join(defs) + "\nend CogentModel.Gen.C06Str\n", []


def generate(src: Path, gen_path: Path):
    text, problems = translate(src)
    if text is None:
        return problems, False
    changed = (not gen_path.exists()) or gen_path.read_text() != text
    if changed:
        gen_path.write_text(text)
    return [], changed


if __name__ == "__main__":
    import sys

    t, p = translate(Path(sys.argv[1]))
    print(t if t else "\n".join(p))
