"""C15 translator (part 2): the pure array / list / decision code of cogent3/phylo/nj.py and cogent3/cluster/UPGMA.py
->  lean/CogentModel/Gen/C15Tree.lean

Translated from the CURRENT source text (stdlib `ast` only, nothing of cogent3 is imported):

    nj.PartialTree.join                               -> (d, nodes, score) of the returned PartialTree
    nj.PartialTree.get_dist_saved_join_score_matrix   -> the score array
    nj.PartialTree.asScoreTreeTuple                   -> the vector `lengths` (the zip with the nodes / `convert` stays hand-modelled)
    UPGMA.find_smallest_index, condense_matrix, condense_node_order
    UPGMA.UPGMA_cluster                               -> the body of the `for` loop as a step function on (matrix, node_order, tree)
    UPGMA.inputs_from_dict_array                      -> (array + eye * BIG_NUM, one PhyloNode per key)
    nj.LightweightTreeTip.convert / LightweightTreeNode.convert -> the value stored in `.length` (`max(0.0, length)`)

Every numpy / list operation is mapped to ONE primitive of lean/CogentModel/Model/TreeNumpy.lean (2-D arrays are entry
functions, the side `n` of the square array is an explicit parameter; exact rationals).  Elementwise arithmetic becomes a
pointwise lambda.  `assert` statements are no-ops (they are true on every run the model describes); the `parent`
back-pointer of PhyloNode is not represented; a statement that only feeds something outside the translated results
(`tips`, the topology) is absorbed by poisoning: a translated result that depended on it would be a translation problem.
Everything else outside the supported fragment is a reported translation problem.  Output is a pure function of the
two source texts.
"""
from __future__ import annotations

import ast
from fractions import Fraction
from pathlib import Path


class Unsupported(Exception):
    pass


LEAN_TYPE = {"S": "Rat", "N": "Nat", "V": "Vec", "M": "Arr", "P": "Nat × Nat", "TL": "List T", "T": "T",
             "OL": "List (Option PN)", "PN": "PN", "OPN": "Option PN"}
KEYWORDS = {"at", "from", "to", "in", "do", "end", "fun", "let", "have", "show", "then", "else", "if", "by", "match", "with", "def", "open", "n", "x", "y"}


def lname(py: str) -> str:
    x = py.lstrip("_") or "x"
    return x + "_" if x in KEYWORDS else x


def rat(v) -> str:
    f = Fraction(v)
    if f.denominator == 1:
        return f"({f.numerator} : Rat)"
    return f"({f.numerator} / {f.denominator} : Rat)"


def _is_poison(t):
    return isinstance(t, tuple) and t[0] == "POISON"


class Fn:
    """one function; `selfmap` maps `self.<attr>` to a parameter name; env: python name -> type"""

    def __init__(self, fdef, selfmap, env, result):
        self.f = fdef
        self.selfmap = selfmap
        self.env0 = env
        self.result = result  # ("return", type) | ("ctor", [positions], [types]) | ("var", name, type)
        self.notes = []
        self.objmap = {}  # (object name, attribute) -> parameter name | "#shape" | "#keys"

    # ------------------------------------------------------------ expressions
    def ex(self, n, env):
        """-> (type, lean text)"""
        if isinstance(n, ast.Constant):
            if isinstance(n.value, bool) or n.value is None:
                if n.value is None:
                    return "NONE", "none"
                raise Unsupported("bool constant")
            if isinstance(n.value, int):
                return "I", str(n.value)
            if isinstance(n.value, float):
                return "S", rat(n.value)
            raise Unsupported(f"constant {n.value!r}")
        if isinstance(n, ast.Name):
            if n.id not in env:
                raise Unsupported(f"unknown name {n.id}")
            t = env[n.id]
            if _is_poison(t):
                raise Unsupported(f"{n.id} is not translated ({t[1]})")
            if isinstance(t, tuple):
                return t, None
            return t, lname(n.id)
        if isinstance(n, ast.Attribute):
            if isinstance(n.value, ast.Name) and n.value.id == "self":
                if n.attr in self.selfmap:
                    return self.ex(ast.Name(id=self.selfmap[n.attr], ctx=ast.Load()), env)
                raise Unsupported(f"self.{n.attr}")
            if isinstance(n.value, ast.Name) and (n.value.id, n.attr) in self.objmap:
                tgt = self.objmap[(n.value.id, n.attr)]
                if tgt == "#shape":
                    return ("SHAPE",), None
                return self.ex(ast.Name(id=tgt, ctx=ast.Load()), env)
            t, s = self.ex(n.value, env)
            if t == "M" and n.attr == "shape":
                return ("SHAPE",), None
            if t == "PN" and n.attr in ("children", "length", "TipLength"):
                fld = {"children": "children", "length": "length", "TipLength": "tipLength"}[n.attr]
                return {"children": "PNL", "length": "S", "TipLength": "S"}[n.attr], f"{s}.{fld}"
            raise Unsupported(f"attribute .{n.attr} of {t}")
        if isinstance(n, ast.UnaryOp) and isinstance(n.op, ast.USub):
            t, s = self.ex(n.operand, env)
            if t == "S":
                return "S", f"(-{s})"
            raise Unsupported("unary minus")
        if isinstance(n, ast.BinOp):
            return self.binop(n, env)
        if isinstance(n, ast.Subscript):
            return self.subscript(n, env)
        if isinstance(n, ast.Call):
            return self.call(n, env)
        if isinstance(n, ast.List) and all(isinstance(e, ast.Name) for e in n.elts):
            for e in n.elts:
                self.ex(e, env)
            return ("NAMES", tuple(e.id for e in n.elts)), None
        raise Unsupported(f"expression {type(n).__name__}")

    def idx(self, n, env):
        """a natural-number index expression"""
        t, s = self.ex(n, env)
        if t == "I":
            if int(s) < 0:
                raise Unsupported("negative index")
            return s
        if t == "N":
            return s
        raise Unsupported(f"index of type {t}")

    @staticmethod
    def toS(t, s):
        if t == "S":
            return s
        if t == "I":
            return f"({s} : Rat)"
        if t == "N":
            return f"({s} : Rat)"
        raise Unsupported(f"{t} where a number is expected")

    def binop(self, n, env):
        ta, a = self.ex(n.left, env)
        tb, b = self.ex(n.right, env)
        op = type(n.op).__name__
        sym = {"Add": "+", "Sub": "-", "Mult": "*", "Div": "/"}.get(op)
        if sym is None:
            raise Unsupported(f"operator {op}")
        scal = ("S", "I", "N")
        if ta in ("N", "I") and tb in ("N", "I") and op in ("Add", "Sub", "Mult"):
            if ta == "I" and tb == "I":
                raise Unsupported("constant arithmetic")
            return "N", f"({a} {sym} {b})"
        if ta in scal and tb in scal:
            if "S" not in (ta, tb) and op != "Div":
                raise Unsupported(f"{ta} {sym} {tb}")
            return "S", f"({self.toS(ta, a)} {sym} {self.toS(tb, b)})"
        if ta == "V" and tb == "V":
            return "V", f"(fun x => {a} x {sym} {b} x)"
        if ta == "V" and tb in scal:
            return "V", f"(fun x => {a} x {sym} {self.toS(tb, b)})"
        if ta in scal and tb == "V":
            return "V", f"(fun x => {self.toS(ta, a)} {sym} {b} x)"
        if ta == "M" and tb == "M":
            return "M", f"(fun x y => {a} x y {sym} {b} x y)"
        if ta == "M" and tb in scal:
            return "M", f"(fun x y => {a} x y {sym} {self.toS(tb, b)})"
        if ta in scal and tb == "M":
            return "M", f"(fun x y => {self.toS(ta, a)} {sym} {b} x y)"
        raise Unsupported(f"{ta} {sym} {tb}")

    @staticmethod
    def _full_slice(s):
        return isinstance(s, ast.Slice) and s.lower is None and s.upper is None and s.step is None

    def subscript(self, n, env):
        t, s = self.ex(n.value, env)
        sl = n.slice
        if t == ("SHAPE",):
            if isinstance(sl, ast.Constant) and sl.value in (0, 1):
                return "N", "n"
            raise Unsupported("shape subscript")
        if t == "M":
            if isinstance(sl, ast.Tuple) and len(sl.elts) == 2:
                x, y = sl.elts
                if self._full_slice(x) and not isinstance(y, ast.Slice):
                    return "V", f"(col {s} {self.idx(y, env)})"
                if self._full_slice(y) and not isinstance(x, ast.Slice):
                    return "V", f"(row {s} {self.idx(x, env)})"
                if isinstance(x, ast.Slice) and isinstance(y, ast.Slice):
                    ks = []
                    for z in (x, y):
                        if z.step is not None or z.upper is None or not (z.lower is None or (isinstance(z.lower, ast.Constant) and z.lower.value == 0)):
                            raise Unsupported("slice that does not start at 0")
                        ks.append(self.idx(z.upper, env))
                    if ks[0] != ks[1]:
                        raise Unsupported("non-square slice")
                    return "M", f"(slice0 {s} {ks[0]})"
                return "S", f"({s} {self.idx(x, env)} {self.idx(y, env)})"
            if isinstance(sl, (ast.Slice, ast.Tuple)):
                raise Unsupported("matrix slice")
            return "V", f"(row {s} {self.idx(sl, env)})"
        if t == "V":
            return "S", f"({s} {self.idx(sl, env)})"
        if t == "TL":
            if self._full_slice(sl):
                return "TL", s
            return "T", f"({s}.getD {self.idx(sl, env)} default)"
        if t == "OL":
            return "PN", f"(({s}.getD {self.idx(sl, env)} none).getD default)"
        if t == "PNL":
            return "PN", f"({s}.getD {self.idx(sl, env)} default)"
        if t == "P" and isinstance(sl, ast.Constant) and sl.value in (0, 1):
            return "N", f"{s}.{sl.value + 1}"
        raise Unsupported(f"subscript of {t}")

    def _dotted(self, f):
        parts = []
        while isinstance(f, ast.Attribute):
            parts.append(f.attr)
            f = f.value
        if isinstance(f, ast.Name):
            parts.append(f.id)
            return ".".join(reversed(parts))
        return None

    def call(self, n, env):
        name = self._dotted(n.func)
        kw = {k.arg: k.value for k in n.keywords}
        if name in ("numpy.sum",):
            t, s = self.ex(n.args[0], env)
            axis = None
            if len(n.args) == 2:
                axis = n.args[1]
            elif "axis" in kw:
                axis = kw["axis"]
            if set(kw) - {"axis"} or len(n.args) > 2:
                raise Unsupported("numpy.sum arguments")
            if t != "M":
                raise Unsupported(f"numpy.sum of {t}")
            if env.get("#sliced"):
                raise Unsupported("sum after a slice (side of the array is no longer n)")
            if axis is None:
                return "S", f"(sumAll n {s})"
            if isinstance(axis, ast.Constant) and axis.value == 0:
                return "V", f"(sumAxis0 n {s})"
            raise Unsupported("numpy.sum axis")
        if n.keywords:
            raise Unsupported(f"keywords in call {name}")
        if name == "sum" and len(n.args) == 1:
            t, s = self.ex(n.args[0], env)
            if t == "V":
                return "S", f"(vsum n {s})"
            raise Unsupported(f"sum of {t}")
        if name == "numpy.add.outer" and len(n.args) == 2:
            (ta, a), (tb, b) = self.ex(n.args[0], env), self.ex(n.args[1], env)
            if ta == tb == "V":
                return "M", f"(addOuter {a} {b})"
            raise Unsupported("add.outer of non-vectors")
        if name == "len" and len(n.args) == 1:
            t, s = self.ex(n.args[0], env)
            if t == "M":
                if env.get("#sliced"):
                    raise Unsupported("len after a slice")
                return "N", "n"
            if t in ("TL", "OL"):
                return "N", f"{s}.length"
            raise Unsupported(f"len of {t}")
        if name == "max" and len(n.args) == 2:
            (ta, a), (tb, b) = self.ex(n.args[0], env), self.ex(n.args[1], env)
            return "S", f"(pymax {self.toS(ta, a)} {self.toS(tb, b)})"
        if name == "ravel" and len(n.args) == 1:
            t, s = self.ex(n.args[0], env)
            if t == "M":
                return ("RAVEL", s), None
            raise Unsupported("ravel of a non-matrix")
        if name == "argmin" and len(n.args) == 1:
            t, _ = self.ex(n.args[0], env)
            if isinstance(t, tuple) and t[0] == "RAVEL":
                return "N", f"(argminRavel n {t[1]})"
            raise Unsupported("argmin of something that is not ravel(matrix)")
        if name == "divmod" and len(n.args) == 2:
            return "P", f"(pydivmod {self.idx(n.args[0], env)} {self.idx(n.args[1], env)})"
        if name == "take" and len(n.args) == 3:
            (tm, m), (tp, p) = self.ex(n.args[0], env), self.ex(n.args[1], env)
            if tm == "M" and tp == "P" and isinstance(n.args[2], ast.Constant) and n.args[2].value == 0:
                return ("TAKE0", m, p), None
            raise Unsupported("take(...) shape")
        if name == "average" and len(n.args) == 2:
            t, _ = self.ex(n.args[0], env)
            if isinstance(t, tuple) and t[0] == "TAKE0" and isinstance(n.args[1], ast.Constant) and n.args[1].value == 0:
                return "V", f"(avgTake0 {t[1]} {t[2]})"
            raise Unsupported("average(...) shape")
        if name == "LightweightTreeNode" and len(n.args) == 1 and isinstance(n.args[0], ast.List) and len(n.args[0].elts) == 2:
            parts = []
            for e in n.args[0].elts:
                if not (isinstance(e, ast.Tuple) and len(e.elts) == 2):
                    raise Unsupported("LightweightTreeNode argument")
                (tl, l), (tt, tr) = self.ex(e.elts[0], env), self.ex(e.elts[1], env)
                if tl != "S" or tt != "T":
                    raise Unsupported("LightweightTreeNode argument types")
                parts += [l, tr]
            return "T", "(T.bin " + " ".join(parts) + ")"
        if name == "numpy.eye" and len(n.args) == 1:
            if self.idx(n.args[0], env) != "n":
                raise Unsupported("numpy.eye of a side other than the array's")
            return "M", "eye"
        if isinstance(n.func, ast.Attribute) and isinstance(n.func.value, ast.Name) and self.objmap.get((n.func.value.id, n.func.attr)) == "#keys" and not n.args:
            return ("KEYS",), None
        if name == "map" and len(n.args) == 2 and isinstance(n.args[0], ast.Name) and n.args[0].id == "PhyloNode":
            t, _ = self.ex(n.args[1], env)
            if t == ("KEYS",):
                return ("MAPPN",), None
            raise Unsupported("map(PhyloNode, ...) over something that is not darr.keys()")
        if name == "list" and len(n.args) == 1:
            t, _ = self.ex(n.args[0], env)
            if t == ("MAPPN",):
                return "OL", "((List.range n).map fun k => some (PN.leaf k))"
            raise Unsupported("list(...)")
        if name == "PhyloNode" and not n.args:
            return "PN", "PN.new"
        if isinstance(n.func, ast.Attribute) and n.func.attr == "copy" and not n.args:
            t, s = self.ex(n.func.value, env)
            if t in ("M", "V"):
                return t, s
        if name in self.known and all(not isinstance(a, ast.Starred) for a in n.args):
            lean, ptypes, rtype, needs_n = self.known[name]
            if len(n.args) != len(ptypes):
                raise Unsupported(f"call of {name} with {len(n.args)} arguments")
            args = []
            for a, pt in zip(n.args, ptypes):
                t, s = self.ex(a, env)
                if pt == "S" and t in ("I", "N"):
                    s, t = self.toS(t, s), "S"
                if t != pt:
                    raise Unsupported(f"argument of {name}: {t} for {pt}")
                args.append(s)
            return rtype, "(" + lean + (" n " if needs_n else " ") + " ".join(args) + ")"
        raise Unsupported(f"call {name or type(n.func).__name__}")

    known: dict = {}

    def cond(self, n, env):
        if isinstance(n, ast.Compare) and len(n.ops) == 1:
            (ta, a), (tb, b) = self.ex(n.left, env), self.ex(n.comparators[0], env)
            sym = {"Eq": "=", "NotEq": "≠", "Lt": "<", "LtE": "≤", "Gt": ">", "GtE": "≥"}.get(type(n.ops[0]).__name__)
            if sym and ta in ("N", "I") and tb in ("N", "I"):
                return f"({a} {sym} {b})"
            if sym and "S" in (ta, tb):
                return f"({self.toS(ta, a)} {sym} {self.toS(tb, b)})"
            raise Unsupported("comparison")
        t, s = self.ex(n, env)
        if t == "PNL":  # truthiness of a list
            return f"({s} ≠ [])"
        raise Unsupported(f"condition {type(n).__name__}")

    # ------------------------------------------------------------ statements
    def block(self, stmts, env, k):
        """k: continuation (env) -> lines, called when the statement list is exhausted (used for loop bodies / branches)"""
        if not stmts:
            return k(env)
        s, rest = stmts[0], stmts[1:]
        go = lambda e: self.block(rest, e, k)  # noqa: E731
        if isinstance(s, ast.Expr) and isinstance(s.value, ast.Constant) and isinstance(s.value.value, str):
            return go(env)
        if isinstance(s, ast.Assert):
            return go(env)
        if isinstance(s, ast.Return):
            return self.ret(s.value, env)
        if isinstance(s, ast.Expr) and isinstance(s.value, ast.Call) and isinstance(s.value.func, ast.Attribute):
            f = s.value.func
            # xs.pop()  /  node.children.append(x)  /  statement on an untranslated object
            if isinstance(f.value, ast.Name) and _is_poison(env.get(f.value.id)):
                return go(env)
            if f.attr == "pop" and isinstance(f.value, ast.Name) and env.get(f.value.id) in ("TL",) and not s.value.args:
                x = f.value.id
                return [f"let {lname(x)} : {LEAN_TYPE['TL']} := lpop {lname(x)}"] + go(env)
            if f.attr == "append" and isinstance(f.value, ast.Attribute) and f.value.attr == "children" and isinstance(f.value.value, ast.Name) \
                    and env.get(f.value.value.id) == "PN" and len(s.value.args) == 1:
                x = f.value.value.id
                t, c = self.ex(s.value.args[0], env)
                if t != "PN":
                    raise Unsupported("append of a non-node")
                return [f"let {lname(x)} : PN := {lname(x)}.append {c}"] + go(env)
            raise Unsupported(f"expression statement at line {s.lineno}")
        if isinstance(s, ast.If):
            c = self.cond(s.test, env)
            # both branches continue with the rest (assigned names are re-bound in each branch)
            a = self.block(list(s.body) + rest, env, k)
            b = self.block(list(s.orelse) + rest, env, k)
            return [f"if {c} then"] + ["  " + x for x in a] + ["else"] + ["  " + x for x in b]
        if isinstance(s, ast.For):
            return self.forloop(s, rest, env, k)
        if isinstance(s, ast.AugAssign) and isinstance(s.target, ast.Attribute) and isinstance(s.target.value, ast.Name) \
                and isinstance(self.objmap.get((s.target.value.id, s.target.attr)), str) and not self.objmap[(s.target.value.id, s.target.attr)].startswith("#"):
            nm = self.objmap[(s.target.value.id, s.target.attr)]
            val = ast.BinOp(left=ast.Name(id=nm, ctx=ast.Load()), op=s.op, right=s.value)
            return self.assign(nm, ast.copy_location(val, s), env, go)
        if isinstance(s, ast.Assign) and len(s.targets) == 1:
            tg = s.targets[0]
            if isinstance(tg, ast.Name):
                return self.assign(tg.id, s.value, env, go)
            if isinstance(tg, ast.Tuple) and all(isinstance(e, ast.Name) for e in tg.elts) and len(tg.elts) == 2:
                t, v = self.ex(s.value, env)
                if t != "P":
                    raise Unsupported("tuple assignment from a non-pair")
                env2 = dict(env)
                lines = []
                for i, e in enumerate(tg.elts):
                    env2[e.id] = "N"
                    lines.append(f"let {lname(e.id)} : Nat := {v}.{i + 1}")
                return lines + go(env2)
            if isinstance(tg, ast.Subscript) and isinstance(tg.value, ast.Name):
                return self.store(tg, s.value, env, go)
            if isinstance(tg, ast.Attribute) and isinstance(tg.value, ast.Name):
                x = tg.value.id
                if _is_poison(env.get(x)):
                    return go(env)
                if env.get(x) == "PN":
                    if tg.attr == "parent":
                        msg = f"line {s.lineno}: `{x}.parent = ...` not represented (back-pointer)"
                        if msg not in self.notes:
                            self.notes.append(msg)
                        return go(env)
                    if tg.attr in ("length", "TipLength"):
                        t, v = self.ex(s.value, env)
                        v = self.toS(t, v)
                        fn = "withLength" if tg.attr == "length" else "withTipLength"
                        return [f"let {lname(x)} : PN := {lname(x)}.{fn} {v}"] + go(env)
                raise Unsupported(f"attribute assignment {x}.{tg.attr}")
        raise Unsupported(f"statement {type(s).__name__} at line {getattr(s, 'lineno', '?')}")

    def assign(self, name, value, env, go):
        env2 = dict(env)
        try:
            t, v = self.ex(value, env)
        except Unsupported as e:
            env2[name] = ("POISON", str(e))
            return go(env2)
        if isinstance(t, tuple):
            env2[name] = t  # symbolic intermediate (shape, ravel, take, list of names)
            return go(env2)
        if t == "I":
            t = "N"
        if t == "NONE" or t not in LEAN_TYPE:
            raise Unsupported(f"assignment of a {t} to {name}")
        env2[name] = t
        if isinstance(value, ast.Subscript) and t == "M" and "slice0" in v:
            env2["#sliced"] = True
        return [f"let {lname(name)} : {LEAN_TYPE[t]} := {v}"] + go(env2)

    def store(self, tg, value, env, go):
        x = tg.value.id
        tx = env.get(x)
        if _is_poison(tx):
            return go(env)
        sl = tg.slice
        lx = lname(x)
        if tx == "M":
            # boolean-mask store  m[diag([True] * len(m))] = c
            if isinstance(sl, ast.Call) and self._dotted(sl.func) == "diag" and len(sl.args) == 1:
                a = sl.args[0]
                ok = (isinstance(a, ast.BinOp) and isinstance(a.op, ast.Mult) and isinstance(a.left, ast.List) and len(a.left.elts) == 1
                      and isinstance(a.left.elts[0], ast.Constant) and a.left.elts[0].value is True)
                if ok:
                    t, s = self.ex(a.right, env)
                    ok = t == "N" and s == "n"
                if not ok:
                    raise Unsupported("mask store is not m[diag([True] * len(m))] = c")
                t, v = self.ex(value, env)
                return [f"let {lx} : Arr := setDiag {lx} {self.toS(t, v)}"] + go(env)
            t, v = self.ex(value, env)
            if isinstance(sl, ast.Tuple) and len(sl.elts) == 2:
                a, b = sl.elts
                if self._full_slice(a) and not isinstance(b, ast.Slice):
                    vec = v if t == "V" else f"(constV {self.toS(t, v)})"
                    return [f"let {lx} : Arr := setCol {lx} {self.idx(b, env)} {vec}"] + go(env)
                if self._full_slice(b) and not isinstance(a, ast.Slice):
                    vec = v if t == "V" else f"(constV {self.toS(t, v)})"
                    return [f"let {lx} : Arr := setRow {lx} {self.idx(a, env)} {vec}"] + go(env)
                if not isinstance(a, ast.Slice) and not isinstance(b, ast.Slice):
                    return [f"let {lx} : Arr := setAt {lx} {self.idx(a, env)} {self.idx(b, env)} {self.toS(t, v)}"] + go(env)
                raise Unsupported("matrix store shape")
            if isinstance(sl, ast.Slice):
                raise Unsupported("matrix slice store")
            vec = v if t == "V" else f"(constV {self.toS(t, v)})"
            return [f"let {lx} : Arr := setRow {lx} {self.idx(sl, env)} {vec}"] + go(env)
        if tx == "TL":
            t, v = self.ex(value, env)
            if t != "T":
                raise Unsupported("list store of a non-node")
            return [f"let {lx} : List T := lset {lx} {self.idx(sl, env)} {v}"] + go(env)
        if tx == "OL":
            t, v = self.ex(value, env)
            if t == "PN":
                v = f"(some {v})"
            elif t != "NONE":
                raise Unsupported("node_order store")
            return [f"let {lx} : List (Option PN) := lset {lx} {self.idx(sl, env)} {v}"] + go(env)
        raise Unsupported(f"store into {x} ({tx})")

    def forloop(self, s, rest, env, k):
        """for n in <list literal of node variables>: the body is unrolled, `n` aliases each variable in turn"""
        if s.orelse or not isinstance(s.target, ast.Name) or not isinstance(s.iter, ast.Name):
            raise Unsupported(f"for loop at line {s.lineno}")
        t = env.get(s.iter.id)
        if not (isinstance(t, tuple) and t[0] == "NAMES"):
            raise Unsupported(f"for loop over {s.iter.id}, which is not a literal list of variables")
        body = list(s.body)
        for nm in reversed(t[1]):
            rest = [_Alias(s.target.id, nm)] + body + [_Unalias(s.target.id, nm)] + rest
        return self.block_alias(rest, env, k)

    def block_alias(self, stmts, env, k):
        # aliasing is implemented by renaming: inside the unrolled body the loop variable IS the aliased variable
        out = []
        flat = []
        cur = None
        for st in stmts:
            if isinstance(st, _Alias):
                cur = (st.var, st.target)
                continue
            if isinstance(st, _Unalias):
                cur = None
                continue
            flat.append(_rename(st, cur[0], cur[1]) if cur else st)
        return out + self.block(flat, env, k)

    def ret(self, v, env):
        kind = self.result[0]
        if kind == "return":
            t, s = self.ex(v, env)
            if t != self.result[1]:
                raise Unsupported(f"returns {t}, expected {self.result[1]}")
            return [s]
        if kind == "tuple":
            if not (isinstance(v, ast.Tuple) and len(v.elts) == len(self.result[1])):
                raise Unsupported("return is not the expected tuple")
            parts = []
            for e, ty in zip(v.elts, self.result[1]):
                t, s = self.ex(e, env)
                if t != ty:
                    raise Unsupported(f"returned component {t}, expected {ty}")
                parts.append(s)
            return ["(" + ", ".join(parts) + ")"]
        if kind == "ctor":
            if not (isinstance(v, ast.Call) and not v.keywords):
                raise Unsupported("return is not a constructor call")
            parts = []
            for pos, ty in zip(self.result[1], self.result[2]):
                t, s = self.ex(v.args[pos], env)
                if t != ty:
                    raise Unsupported(f"constructor argument {pos}: {t}, expected {ty}")
                parts.append(s)
            return ["(" + ", ".join(parts) + ")"]
        raise Unsupported("return")

    def translate(self, lean_name, params, rtype, doc):
        env = dict(self.env0)
        if self.result[0] == "var":
            # value of a local variable right after its (single) assignment
            stmts = []
            found = False
            for st in self.f.body:
                stmts.append(st)
                if isinstance(st, ast.Assign) and len(st.targets) == 1 and isinstance(st.targets[0], ast.Name) and st.targets[0].id == self.result[1]:
                    found = True
                    break
            if not found:
                raise Unsupported(f"no assignment to {self.result[1]}")
            stmts.append(ast.Return(value=ast.Name(id=self.result[1], ctx=ast.Load())))
            self.result = ("return", self.result[2])
        else:
            stmts = list(self.f.body)

        def fall(_env):
            raise Unsupported("function falls off the end without a return")

        lines = self.block(stmts, env, fall)
        sig = " ".join(f"({p} : {ty})" for p, ty in params)
        return f"/-- {doc} -/\ndef {lean_name} {sig} : {rtype} :=\n" + "\n".join("  " + x for x in lines)


class _Alias(ast.stmt):
    def __init__(self, var, target):
        self.var, self.target = var, target


class _Unalias(_Alias):
    pass


class _Ren(ast.NodeTransformer):
    def __init__(self, a, b):
        self.a, self.b = a, b

    def visit_Name(self, node):
        if node.id == self.a:
            return ast.copy_location(ast.Name(id=self.b, ctx=node.ctx), node)
        return node


def _rename(st, a, b):
    import copy

    return _Ren(a, b).visit(copy.deepcopy(st))


# --------------------------------------------------------------------------
def _cluster_step(fdef, known):
    """UPGMA_cluster: `for i in range(num_entries - 1): <body>; return tree` -> the body as a step function and the trip count"""
    body = [s for s in fdef.body if not (isinstance(s, ast.Expr) and isinstance(s.value, ast.Constant))]
    params = [a.arg for a in fdef.args.args]
    if params != ["matrix", "node_order", "large_number"]:
        raise Unsupported(f"UPGMA_cluster parameters {params}")
    loop = [s for s in body if isinstance(s, ast.For)]
    if len(loop) != 1 or loop[0].orelse:
        raise Unsupported("UPGMA_cluster: expected exactly one for loop")
    loop = loop[0]
    pre = body[: body.index(loop)]
    post = body[body.index(loop) + 1:]
    fn = Fn(fdef, {}, {"matrix": "M", "node_order": "OL", "large_number": "S"}, ("return", "N"))
    fn.known = known
    # the statements before the loop: `num_entries = len(node_order)`, `tree = None`
    env = dict(fn.env0)
    trip = None
    for s in pre:
        if isinstance(s, ast.Assign) and len(s.targets) == 1 and isinstance(s.targets[0], ast.Name):
            nm = s.targets[0].id
            if isinstance(s.value, ast.Constant) and s.value.value is None and nm == "tree":
                continue
            t, v = fn.ex(s.value, env)
            if t == "N":
                env[nm] = ("EXPR", v)
                continue
        raise Unsupported(f"UPGMA_cluster: statement before the loop at line {s.lineno}")
    it = loop.iter
    if not (isinstance(it, ast.Call) and isinstance(it.func, ast.Name) and it.func.id == "range" and len(it.args) == 1 and isinstance(loop.target, ast.Name)):
        raise Unsupported("UPGMA_cluster: loop is not `for i in range(k)`")

    def count(n):
        if isinstance(n, ast.Name) and isinstance(env.get(n.id), tuple) and env[n.id][0] == "EXPR":
            return env[n.id][1]
        if isinstance(n, ast.Constant) and isinstance(n.value, int) and n.value >= 0:
            return str(n.value)
        if isinstance(n, ast.BinOp) and isinstance(n.op, (ast.Add, ast.Sub)):
            return f"({count(n.left)} {'+' if isinstance(n.op, ast.Add) else '-'} {count(n.right)})"
        raise Unsupported("UPGMA_cluster: trip count")

    trip = count(it.args[0])
    if not (len(post) == 1 and isinstance(post[0], ast.Return) and isinstance(post[0].value, ast.Name) and post[0].value.id == "tree"):
        raise Unsupported("UPGMA_cluster: the loop is not followed by `return tree`")
    for nd in (x for st in loop.body for x in ast.walk(st)):
        if isinstance(nd, ast.Name) and nd.id == loop.target.id:
            raise Unsupported("UPGMA_cluster: the loop counter is used in the body")
        if isinstance(nd, (ast.Break, ast.Continue)):
            raise Unsupported("UPGMA_cluster: break/continue")
    benv = {"matrix": "M", "node_order": "OL", "large_number": "S", "tree": ("POISON", "tree of the previous pass")}
    fn2 = Fn(fdef, {}, benv, ("return", "N"))
    fn2.known = known

    def done(e):
        for nm, ty in (("matrix", "M"), ("node_order", "OL"), ("tree", "OPN")):
            if e.get(nm) != ty:
                raise Unsupported(f"UPGMA_cluster: {nm} is {e.get(nm)} at the end of the loop body")
        return ["(matrix, node_order, tree)"]

    # `_ = f(...)` where f mutates and returns node_order: rebinding through the returned alias
    stmts = []
    for s in loop.body:
        if (isinstance(s, ast.Assign) and len(s.targets) == 1 and isinstance(s.targets[0], ast.Name) and s.targets[0].id == "_"
                and isinstance(s.value, ast.Call) and isinstance(s.value.func, ast.Name) and s.value.func.id == "condense_node_order"
                and len(s.value.args) == 3 and isinstance(s.value.args[2], ast.Name) and s.value.args[2].id == "node_order"):
            s = ast.copy_location(ast.Assign(targets=[ast.Name(id="node_order", ctx=ast.Store())], value=s.value), s)
        stmts.append(s)
    # tree = node_order[k]  (an Option entry, not unwrapped)
    last = stmts[-1]
    if not (isinstance(last, ast.Assign) and isinstance(last.targets[0], ast.Name) and last.targets[0].id == "tree" and isinstance(last.value, ast.Subscript)
            and isinstance(last.value.value, ast.Name) and last.value.value.id == "node_order"):
        raise Unsupported("UPGMA_cluster: last statement of the loop is not `tree = node_order[...]`")

    def fin(e):
        k = fn2.idx(last.value.slice, e)
        e2 = dict(e)
        e2["tree"] = "OPN"
        return [f"let tree : Option PN := node_order.getD {k} none"] + done(e2)

    lines = fn2.block(stmts[:-1], benv, fin)
    text = (
        "/-- body of the `for` loop of `UPGMA_cluster` (one pass), on (matrix, node_order); returns the new matrix, node_order and `tree` -/\n"
        "def UPGMA_cluster_step (n : Nat) (large_number : Rat) (matrix : Arr) (node_order : List (Option PN)) : Arr × List (Option PN) × Option PN :=\n"
        + "\n".join("  " + x for x in lines)
        + "\n\n/-- number of passes of the loop of `UPGMA_cluster` -/\n"
        f"def UPGMA_cluster_trips (node_order : List (Option PN)) : Nat := {trip}"
    )
    return text, fn.notes + fn2.notes


def _convert_length(fdef, key):
    """`convert` of LightweightTreeTip / LightweightTreeNode: the value stored in `node.length` as a function of `length`
    (the constructor call and, for inner nodes, the recursion over the children stay hand-modelled)"""
    found = []
    for nd in ast.walk(fdef):
        if isinstance(nd, ast.Assign) and len(nd.targets) == 1 and isinstance(nd.targets[0], ast.Attribute) and nd.targets[0].attr == "length":
            found.append(nd.value)
    if len(found) != 1:
        raise Unsupported(f"{key}: expected exactly one assignment to `.length`, found {len(found)}")
    fn = Fn(fdef, {}, {"length": "S"}, ("return", "S"))
    t, v = fn.ex(found[0], {"length": "S"})
    if t != "S":
        raise Unsupported(f"{key}: `.length` is assigned a {t}")
    return v


def _funcs(path: Path):
    tree = ast.parse(path.read_text())
    out = {}
    for nd in tree.body:
        if isinstance(nd, ast.FunctionDef):
            out[nd.name] = nd
        if isinstance(nd, ast.ClassDef):
            for m in nd.body:
                if isinstance(m, ast.FunctionDef):
                    out[f"{nd.name}.{m.name}"] = m
    return out


def translate(src: Path):
    """-> (lean text | None, problems, notes)"""
    problems, parts, notes = [], [], []
    nj = _funcs(src / "phylo" / "nj.py")
    up = _funcs(src / "cluster" / "UPGMA.py")
    selfmap = {"d": "d", "nodes": "nodes", "score": "score"}
    known = {}

    def one(table, key, lean_name, env, result, params, rtype, doc, smap=None, objmap=None):
        if key not in table:
            problems.append(f"{key} not found")
            return
        fn = Fn(table[key], smap or {}, env, result)
        fn.known = known
        fn.objmap = objmap or {}
        try:
            parts.append(fn.translate(lean_name, params, rtype, doc))
            notes.extend(f"{key}: {x}" for x in fn.notes)
        except Unsupported as e:
            problems.append(f"{key}: {e}")

    one(nj, "PartialTree.get_dist_saved_join_score_matrix", "score_matrix", {"d": "M", "score": "S"}, ("return", "M"),
        [("n", "Nat"), ("d", "Arr"), ("score", "Rat")], "Arr", "`PartialTree.get_dist_saved_join_score_matrix` (n = len(self.d))", selfmap)
    one(nj, "PartialTree.join", "join", {"d": "M", "nodes": "TL", "score": "S", "i": "N", "j": "N"}, ("ctor", [0, 1, 3], ["M", "TL", "S"]),
        [("n", "Nat"), ("d", "Arr"), ("nodes", "List T"), ("score", "Rat"), ("i", "Nat"), ("j", "Nat")], "Arr × List T × Rat",
        "`PartialTree.join(i, j)`: (d, nodes, score) of the returned PartialTree (n = len(self.d))", selfmap)
    one(nj, "PartialTree.asScoreTreeTuple", "final_lengths", {"d": "M", "nodes": "TL", "score": "S"}, ("var", "lengths", "V"),
        [("n", "Nat"), ("d", "Arr")], "Vec", "`lengths` of `PartialTree.asScoreTreeTuple` (n = len(self.d) = 3)", selfmap)
    for key, lean_name in (("LightweightTreeTip.convert", "tip_convert_length"), ("LightweightTreeNode.convert", "node_convert_length")):
        if key not in nj:
            problems.append(f"{key} not found")
            continue
        try:
            v = _convert_length(nj[key], key)
            parts.append(f"/-- the `length` that `{key}` stores in the node it builds -/\ndef {lean_name} (length : Rat) : Rat :=\n  {v}")
        except Unsupported as e:
            problems.append(f"{key}: {e}")
    one(up, "find_smallest_index", "find_smallest_index", {"matrix": "M"}, ("return", "P"),
        [("n", "Nat"), ("matrix", "Arr")], "Nat × Nat", "`find_smallest_index` (n = matrix.shape[0])")
    known["find_smallest_index"] = ("find_smallest_index", ["M"], "P", True)
    one(up, "condense_matrix", "condense_matrix", {"matrix": "M", "smallest_index": "P", "large_value": "S"}, ("return", "M"),
        [("matrix", "Arr"), ("smallest_index", "Nat × Nat"), ("large_value", "Rat")], "Arr", "`condense_matrix`")
    known["condense_matrix"] = ("condense_matrix", ["M", "P", "S"], "M", False)
    one(up, "condense_node_order", "condense_node_order", {"matrix": "M", "smallest_index": "P", "node_order": "OL"}, ("return", "OL"),
        [("matrix", "Arr"), ("smallest_index", "Nat × Nat"), ("node_order", "List (Option PN)")], "List (Option PN)", "`condense_node_order`")
    known["condense_node_order"] = ("condense_node_order", ["M", "P", "OL"], "OL", False)
    one(up, "inputs_from_dict_array", "inputs_from_dict_array", {"array": "M", "BIG_NUM": "S"}, ("tuple", ["M", "OL"]),
        [("n", "Nat"), ("array", "Arr"), ("BIG_NUM", "Rat")], "Arr × List (Option PN)",
        "`inputs_from_dict_array` (darr.array = `array`, darr.shape[0] = n, darr.keys() = 0..n-1; `BIG_NUM` the module constant)",
        objmap={("darr", "array"): "array", ("darr", "shape"): "#shape", ("darr", "keys"): "#keys"})
    if "UPGMA_cluster" not in up:
        problems.append("UPGMA_cluster not found")
    else:
        try:
            t, nn = _cluster_step(up["UPGMA_cluster"], known)
            parts.append(t)
            notes.extend(f"UPGMA_cluster: {x}" for x in nn)
        except Unsupported as e:
            problems.append(f"UPGMA_cluster: {e}")
    if problems:
        return None, problems, notes
    text = (
        "import CogentModel.Model.TreeNumpy\n"
        "/- GENERATED by translator/c15_tree2lean.py from cogent3/phylo/nj.py and cogent3/cluster/UPGMA.py on every run -- do not edit.\n"
        "   numpy / list operations are the primitives of Model/TreeNumpy.lean; `n` is the side of the square array. -/\n"
        "set_option linter.unusedVariables false\n"
        "namespace CogentModel.Gen.C15Tree\nopen CogentModel.TreeNp\nopen CogentModel.NJ (T)\n\n"
        + "\n\n".join(parts)
        + "\n\nend CogentModel.Gen.C15Tree\n"
    )
    return text, [], notes


def write_if_changed(path: Path, text: str) -> bool:
    if path.exists() and path.read_text() == text:
        return False
    path.parent.mkdir(parents=True, exist_ok=True)
    path.write_text(text)
    return True


if __name__ == "__main__":
    import sys

    t, pr, nn = translate(Path(sys.argv[1]))
    print(t if t else "\n".join(pr))
    for x in nn:
        print("-- note:", x)
