"""Python -> Lean translator for the pure integer / decision logic of the span algebra in core/location.py (C08).

On every run this re-reads ``core/location.py`` with ``ast`` only (nothing of cogent3 is imported or executed) and emits
``lean/CogentModel/Gen/C08Span.lean`` (namespace ``CogentModel.C08Gen``).  The output is a pure function of the source
text: an unchanged source gives a byte-identical file.  ``Props/C08Gen.lean`` proves every generated definition equal to
the hand model (``Model/FMap.lean``, ``Model/FMapOps.lean``, ``Model/IndelMap.lean``) for ALL arguments, so a semantic edit
of one of these python functions changes the generated text and breaks a proof obligation.

Translated (anything in their bodies that is not supported is a *translation problem*, never skipped):

    _norm_index, _norm_slice (int and slice variants), span_and_span,
    Span.__init__ + Span._new_init, Span.reversed, Span.__getitem__ (slice and int subscript), Span.__mul__, Span.__truediv__,
    Span.reversed_relative_to, Span.__contains__ (span and number argument), Span.overlaps (span argument; with a number
    python raises TypeError before the handler is reached), Span.__len__,
    SpanI.starts_before/after/at/inside, ends_before/after/at/inside (span and number argument),
    _LostSpan.__init__, __len__, reversed, __getitem__, __mul__, __truediv__, remap_with, reversed_relative_to,
    FeatureMap.__mul__, __truediv__, __add__, without_gaps, get_coordinates,
    (wave 2, loops) coords_minus_coords, coords_intersect, FeatureMap.__post_init__, gaps, nongap, inverse, start, end,
    absolute_position, relative_position

It is a small statement compiler over a typed environment: ``if/elif/else`` (the rest of the function is duplicated into
the arms that do not leave), ``x is None`` tests narrow an optional to an int (``match``), simple / tuple / augmented
assignment (``let``, simultaneous for tuples), ``assert``, ``raise``, ``return``; integer arithmetic (``//`` = ``Int.fdiv``,
``%`` = ``Int.fmod``), chained comparisons, ``and/or/not`` (python truthiness of ints and optionals), conditional
expressions, ``min/max/abs``, ``x in span``, list comprehensions over the spans of a map (with a filter), ``list + list``.
``for pat in xs: body`` is a function defined by STRUCTURAL RECURSION over the list (``<fn>_loop<k>``): its state is the
variables the body assigns that exist before the loop (accumulator parameters), the other variables the body reads are
parameters, the end of the body and ``continue`` recurse on the tail, ``break`` returns the state, ``raise`` is the error;
``return`` inside a loop, a loop without state, a body variable read after the loop are translation problems.  Lists:
``[]`` (element kind read off the ``.append`` calls), ``xs.append(v)``, ``xs.sort()`` of int 4-tuples, ``x, y = f(..)`` /
``r = f(..)`` for the pair-or-(None, None) of ``span_and_span`` with ``x is None`` / ``r[0] is None`` narrowing.
``while`` loops, ``Span.remap_with``, ``covered`` are not translated (hand model + correspondence).

Conventions (also in the generated header):
  S1 ``try: A  except AttributeError: B`` in the comparison helpers is dispatch on the type of ``other``: ``A`` is translated
     for a span argument (``<name>Span``), ``B`` for a number (``<name>Int``);
  S2 ``tidy_start`` / ``tidy_end`` / ``value`` / ``_serialisable`` are not modelled: statements that only compute them are
     dropped, constructor arguments bound to them are dropped, ``self.value`` reads ``None``;
  S3 ``isinstance(start, Span)`` in ``_new_init`` is false (a span is built from numbers);
  S4 an object is its fields: ``Span`` = (start, end, reverse), ``_LostSpan`` = (length), ``FeatureMap`` = (spans,
     parent_length); ``x.length`` of a Span reads the expression ``__init__`` stores there; ``LostSpan(n, v)`` is
     ``_LostSpan(n, v)`` (the small-gap cache is a memo); a stored span of unknown class is ``FMap.FSp`` and its
     methods dispatch on the constructor; ``.start`` / ``.end`` of a lost span read 0 (python: AttributeError; every
     translated use is guarded by ``.lost``);
  S5 ``ZeroDivisionError`` is not modelled (``x // 0 = 0``, ``x % 0 = x`` as in Lean);
  S6 ``from_locations`` / ``_spans_from_locations`` are the hand models ``FMap.fromLocations`` / ``FMap.spansFromLocations``
     (translated and proved equal to them by C04's package);
  S7 a numpy array of pairs is the list of pairs (``numpy.array(xs, dtype=..)`` = ``xs``), dtype bookkeeping is dropped;
  S8 ``min(x, y)`` / ``max(x, y)`` with ``x`` None read None (python: TypeError); in ``__post_init__`` this is guarded by
     ``useful``; ``isinstance(spans, property)`` (dataclass artefact) is false;
  S9 positions given to ``absolute_position`` / ``relative_position`` are python ints (``isinstance(p, int)`` is true and
     ``numpy.array([p]).min()`` is ``p``); the array form is not translated;
  S10 ``list.sort()`` of 4-tuples of ints is the lexicographic insertion sort ``FMap.insertQ``.
"""
from __future__ import annotations

import ast
from pathlib import Path


class TranslationError(Exception):
    pass


LEAN_KEYWORDS = {"at", "from", "end", "then", "else", "if", "fun", "let", "do", "in", "with", "match", "have", "show",
                 "by", "where", "open", "def", "instance", "structure", "class", "namespace", "section", "variable",
                 "theorem", "example", "import", "return", "for", "unless", "mut", "Type", "new", "map", "prefix",
                 "default", "slice", "first", "last"}
ERR = {"ValueError": "valueError", "IndexError": "indexError", "AssertionError": "assertionError",
       "RuntimeError": "runtimeError"}
UNMODELLED = {"tidy_start", "tidy_end", "value", "_serialisable"}


def ln(n):
    return n + "_" if n in LEAN_KEYWORDS else n


def lname(n):
    """lean identifier of a python variable or of an attribute `self.x` / `self._x` kept as a variable"""
    if n.startswith("self."):
        return "self_" + n[5:].lstrip("_")
    return ln(n)


def src(node):
    try:
        return ast.unparse(node)
    except Exception:  # noqa: BLE001
        return type(node).__name__


def paren(t):
    t = t.strip()
    if t and (t.isidentifier() or t.lstrip("-").isdigit() and not t.startswith("-") or (t[0] == "(" and _balanced(t))):
        return t
    return f"({t})"


def _balanced(t):
    d = 0
    for i, c in enumerate(t):
        d += c == "("
        d -= c == ")"
        if d == 0 and i < len(t) - 1:
            return False
    return d == 0


# value kinds: ("int", lean) ("bool", lean) ("prop", lean) ("optint", lean) ("none",) ("dropped",)
#              ("span", s, e, r) ("lost", n) ("sliceobj", a, b, c) ("fsp", lean) ("fsps", lean) ("fm", spans, pl)
#              ("tuple", [values]) ("m", lean, kind-of-result)  -- a monadic computation


class Unit:
    def __init__(self, tree):
        self.tree = tree
        self.classes = {n.name: n for n in tree.body if isinstance(n, ast.ClassDef)}
        self.funcs = {}
        self.registered = []
        self.consts = {}
        for n in tree.body:
            if isinstance(n, ast.FunctionDef):
                if n.name == "_" and n.decorator_list:
                    self.registered.append(n)
                else:
                    self.funcs[n.name] = n
            elif isinstance(n, ast.Assign) and len(n.targets) == 1 and isinstance(n.targets[0], ast.Name):
                self.consts[n.targets[0].id] = n.value

    def method(self, cls, name):
        c = self.classes.get(cls)
        if c is None:
            raise TranslationError(f"class {cls} not found")
        for n in c.body:
            if isinstance(n, ast.FunctionDef) and n.name == name:
                return n
        raise TranslationError(f"{cls}.{name} not found")

    def class_const(self, cls, name):
        for n in self.classes[cls].body:
            if isinstance(n, ast.Assign) and len(n.targets) == 1 and isinstance(n.targets[0], ast.Name) and n.targets[0].id == name:
                return n.value
        raise TranslationError(f"{cls}.{name} (class attribute) not found")

    def field_default(self, cls, name):
        """default of a dataclass field: `x: T = v` or `x: T = dataclasses.field(default=v, ...)`; None if there is none"""
        for n in self.classes[cls].body:
            if isinstance(n, ast.AnnAssign) and isinstance(n.target, ast.Name) and n.target.id == name and n.value is not None:
                v = n.value
                if isinstance(v, ast.Call) and src(v.func) in ("dataclasses.field", "field"):
                    for k in v.keywords:
                        if k.arg == "default":
                            return k.value
                    return None
                return v
        return None

    def registered_variant(self, base, annotation):
        for n in self.registered:
            d = n.decorator_list[0]
            if src(d) == f"{base}.register" and n.args.args and src(n.args.args[0].annotation) == annotation:
                return n
        raise TranslationError(f"{base}.register variant for {annotation} not found")

    def stored_attr(self, cls, attr):
        """the expression `__init__` stores in self.<attr>"""
        init = self.method(cls, "__init__")
        for n in init.body:
            if (isinstance(n, ast.Assign) and len(n.targets) == 1 and isinstance(n.targets[0], ast.Attribute)
                    and isinstance(n.targets[0].value, ast.Name) and n.targets[0].value.id == "self" and n.targets[0].attr == attr):
                return n.value
        raise TranslationError(f"{cls}.__init__ does not store self.{attr}")


class Fn:
    """compiler for one python function"""

    def __init__(self, unit, fdef, lean_name, params, ret, monadic, owner=None, variant=None, mk=None):
        self.u = unit
        self.f = fdef
        self.name = lean_name
        self.params = params      # [(python name, value)]
        self.ret = ret            # "int" "bool" "fsp" "fsps" "fm" "optpair" "tuple" "triple"
        self.monadic = monadic
        self.owner = owner        # class name of self
        self.variant = variant    # "span" | "int" for try/except dispatch
        self.mk = mk              # for __init__: function env -> lean text of the constructed object
        self.tmp = 0
        self.stmts = 0
        self.aux = []             # loop functions (text), innermost first
        self.loops = []           # stack of loops being compiled
        self.nloops = 0

    def fail(self, node, why):
        raise TranslationError(f"{self.f.name} l.{getattr(node, 'lineno', '?')}: {why}: `{src(node)[:90]}`")

    def fresh(self, stem="t"):
        self.tmp += 1
        return f"{stem}{self.tmp}"

    # ------------------------------------------------------------------ expressions
    def attr(self, node, env):
        if isinstance(node.value, ast.Name) and node.value.id == "self" and ("self." + node.attr) in env:
            return env["self." + node.attr]
        base = self.expr(node.value, env)
        a = node.attr
        k = base[0]
        if a in UNMODELLED:
            return ("none",) if a == "value" else ("dropped",)
        if k == "span":
            if a == "start":
                return ("int", base[1])
            if a == "end":
                return ("int", base[2])
            if a == "reverse":
                return ("bool", base[3])
            if a == "lost":
                return self.expr(self.u.class_const("Span", "lost"), {})
            if a == "length":
                # what __init__ stores there (S4)
                return self.expr(self.u.stored_attr("Span", "length"), {"self": base})
        if k == "lost":
            if a == "length":
                return ("int", base[1])
            if a == "lost":
                return self.expr(self.u.class_const("_LostSpan", "lost"), {})
        if k == "sliceobj" and a in ("start", "stop", "step"):
            return ("optint", base[1 + ("start", "stop", "step").index(a)])
        if k == "fm":
            if a == "spans":
                return ("fsps", base[1])
            if a == "parent_length":
                return ("int", base[2])
            if a in ("start", "end"):
                return ("int", f"(fm{a.capitalize()} {paren(base[1])} {paren(base[2])})")
            if a in ("_start", "_end"):
                return ("optint", f"(fmPost {paren(base[1])} {paren(base[2])}).{'start_' if a == '_start' else 'end_'}")
        if k == "fsp":
            if a == "lost":
                return ("bool", f"{base[1]}.isLost")
            if a == "length":
                return ("int", f"{base[1]}.length")
            if a == "reverse":
                return ("bool", f"(fspReverse {base[1]})")
            if a == "start":
                return ("int", f"(fspStart {base[1]})")
            if a == "end":
                return ("int", f"(fspEnd {base[1]})")
        self.fail(node, f"attribute .{a} of a {k}")

    def as_int(self, v, node):
        if v[0] == "int":
            return v[1]
        self.fail(node, f"an int is needed, got {v[0]}")

    def as_prop(self, v, node):
        """python truthiness"""
        k = v[0]
        if k == "prop":
            return v[1]
        if k == "bool":
            if v[1] in ("true", "True_"):
                return "True"
            if v[1] == "false":
                return "False"
            return f"{paren(v[1])} = true"
        if k == "int":
            return f"{paren(v[1])} ≠ 0"
        if k == "optint":
            return f"pyTruthy {paren(v[1])}"
        if k == "none":
            return "False"
        self.fail(node, f"truth value of a {k}")

    def as_bool(self, v, node):
        if v[0] == "bool":
            return v[1]
        return f"decide ({self.as_prop(v, node)})"

    def expr(self, node, env):
        if isinstance(node, ast.Constant):
            c = node.value
            if c is None:
                return ("none",)
            if isinstance(c, bool):
                return ("bool", "true" if c else "false")
            if isinstance(c, int):
                return ("int", str(c) if c >= 0 else f"({c})")
            self.fail(node, "constant")
        if isinstance(node, ast.Name):
            if node.id in env:
                return env[node.id]
            if node.id in UNMODELLED:
                return ("none",) if node.id == "value" else ("dropped",)
            if node.id in self.u.consts:
                return self.expr(self.u.consts[node.id], {})
            self.fail(node, "unknown name")
        if isinstance(node, ast.Attribute):
            return self.attr(node, env)
        if isinstance(node, ast.Tuple):
            return ("tuple", [self.expr(e, env) for e in node.elts])
        if isinstance(node, ast.UnaryOp):
            if isinstance(node.op, ast.Not):
                o = self.expr(node.operand, env)
                if o[0] == "bool":
                    return ("bool", f"!{paren(o[1])}")
                return ("prop", f"¬ ({self.as_prop(self.expr(node.operand, env), node)})")
            if isinstance(node.op, ast.USub):
                return ("int", f"(-{paren(self.as_int(self.expr(node.operand, env), node))})")
            self.fail(node, "unary operator")
        if isinstance(node, ast.BinOp):
            a = self.expr(node.left, env)
            if a[0] == "fsp" and isinstance(node.op, (ast.Mult, ast.Div)):
                b = self.as_int(self.expr(node.right, env), node)
                return ("m", f"{'fspMul' if isinstance(node.op, ast.Mult) else 'fspTruediv'} {paren(a[1])} {paren(b)}", "fsp")
            if a[0] == "fsps" and isinstance(node.op, ast.Add):
                b = self.expr(node.right, env)
                if b[0] != "fsps":
                    self.fail(node, "list + non-list")
                return ("fsps", f"{paren(a[1])} ++ {paren(b[1])}")
            b = self.expr(node.right, env)
            x, y = self.as_int(a, node), self.as_int(b, node)
            op = {ast.Add: "{} + {}", ast.Sub: "{} - {}", ast.Mult: "{} * {}", ast.FloorDiv: "Int.fdiv {} {}",
                  ast.Mod: "Int.fmod {} {}"}.get(type(node.op))
            if op is None:
                self.fail(node, "binary operator")
            return ("int", op.format(paren(x), paren(y)))
        if isinstance(node, ast.BoolOp):
            vals = [self.expr(v, env) for v in node.values]
            if isinstance(node.op, ast.Or) and vals[0][0] in ("optint",) and all(v[0] == "int" for v in vals[1:]) and len(vals) == 2:
                # `x or c` on an optional int: None and 0 give c
                return ("int", f"pyOr {paren(vals[0][1])} {paren(vals[1][1])}")
            j = " ∧ " if isinstance(node.op, ast.And) else " ∨ "
            return ("prop", j.join(f"({self.as_prop(v, node)})" for v in vals))
        if isinstance(node, ast.Compare):
            parts = []
            left = node.left
            for op, right in zip(node.ops, node.comparators):
                parts.append(self.compare(left, op, right, env, node))
                left = right
            return ("prop", " ∧ ".join(parts)) if len(parts) > 1 else ("prop", parts[0])
        if isinstance(node, ast.IfExp):
            c = self.as_prop(self.expr(node.test, env), node)
            if c == "True":
                return self.expr(node.body, env)
            if c == "False":
                return self.expr(node.orelse, env)
            a, b = self.expr(node.body, env), self.expr(node.orelse, env)
            if a[0] == b[0] == "int":
                return ("int", f"if {c} then {a[1]} else {b[1]}")
            self.fail(node, "conditional expression of non-ints")
        if isinstance(node, ast.Call):
            return self.call(node, env)
        if isinstance(node, ast.ListComp):
            return self.listcomp(node, env)
        if isinstance(node, ast.Subscript):
            base = self.expr(node.value, env)
            if base[0] == "tuple" and isinstance(node.slice, ast.Constant) and isinstance(node.slice.value, int) \
                    and 0 <= node.slice.value < len(base[1]):
                return base[1][node.slice.value]
            self.fail(node, f"subscript of a {base[0]}")
        if isinstance(node, ast.List) and not node.elts:
            return ("emptylist",)
        if isinstance(node, ast.List) and len(node.elts) == 1 and self.expr(node.elts[0], env)[0] == "int":
            return ("intlist", [self.expr(node.elts[0], env)[1]])
        if isinstance(node, ast.List):
            vals = [self.expr(e, env) for e in node.elts]
            if all(v[0] == "tuple" and len(v[1]) == 2 for v in vals):
                return ("pairs", "[" + ", ".join(self.tuple_text(v, node) for v in vals) + "]")
            self.fail(node, "list display")
        self.fail(node, "expression")

    def tuple_text(self, v, node):
        out = []
        for x in v[1]:
            if x[0] == "int":
                out.append(x[1])
            elif x[0] in ("bool", "prop"):
                out.append(self.as_bool(x, node))
            elif x[0] == "optint":
                out.append(x[1])
            elif x[0] == "none":
                out.append("none")
            else:
                self.fail(node, f"tuple component of kind {x[0]}")
        return "(" + ", ".join(out) + ")"

    def compare(self, left, op, right, env, node):
        a, b = self.expr(left, env), self.expr(right, env)
        if isinstance(op, (ast.Is, ast.IsNot)):
            if b[0] != "none":
                self.fail(node, "`is` with something other than None")
            if a[0] == "optint":
                return f"{paren(a[1])} {'=' if isinstance(op, ast.Is) else '≠'} none"
            if a[0] == "none":
                return "True" if isinstance(op, ast.Is) else "False"
            if a[0] == "int":
                return "False" if isinstance(op, ast.Is) else "True"
            self.fail(node, f"`is None` on a {a[0]}")
        if isinstance(op, ast.In):
            if b[0] == "span" and a[0] == "int":
                return f"spanContainsInt {paren(b[1])} {paren(b[2])} {paren(b[3])} {paren(a[1])} = true"
            if b[0] == "span" and a[0] == "span":
                return f"spanContainsSpan {paren(b[1])} {paren(b[2])} {paren(b[3])} {paren(a[1])} {paren(a[2])} {paren(a[3])} = true"
            self.fail(node, f"`{a[0]} in {b[0]}`")
        if a[0] == "bool" and b[0] == "bool" and isinstance(op, (ast.Eq, ast.NotEq)):
            return f"{paren(a[1])} {'=' if isinstance(op, ast.Eq) else '≠'} {paren(b[1])}"
        sym = {ast.Lt: "<", ast.LtE: "≤", ast.Gt: ">", ast.GtE: "≥", ast.Eq: "=", ast.NotEq: "≠"}.get(type(op))
        if sym is None:
            self.fail(node, "comparison operator")
        if a[0] == "optint" and b[0] == "int" and sym in ("=", "≠"):
            return f"{paren(a[1])} {sym} some {paren(b[1])}"
        if a[0] == "int" and b[0] == "optint" and sym in ("=", "≠"):
            return f"some {paren(a[1])} {sym} {paren(b[1])}"
        return f"{paren(self.as_int(a, node))} {sym} {paren(self.as_int(b, node))}"

    def bind_args(self, node, env, fdef, skip_self=True):
        """python argument binding against the signature read from the source -> {param: value}"""
        params = [a.arg for a in fdef.args.args]
        if skip_self and params and params[0] in ("self", "cls"):
            params = params[1:]
        defaults = fdef.args.defaults
        dflt = {p: d for p, d in zip(params[len(params) - len(defaults):], defaults)}
        bound = {}
        if len(node.args) > len(params):
            self.fail(node, "too many positional arguments")
        for p, a in zip(params, node.args):
            bound[p] = self.expr(a, env)
        for kw in node.keywords:
            if kw.arg is None or kw.arg not in params or kw.arg in bound:
                self.fail(node, f"keyword argument {kw.arg}")
            bound[kw.arg] = self.expr(kw.value, env)
        for p in params:
            if p not in bound:
                if p not in dflt:
                    self.fail(node, f"missing argument {p}")
                bound[p] = self.expr(dflt[p], {})
        return bound

    def opt_text(self, v, node):
        if v[0] == "optint":
            return v[1]
        if v[0] == "none":
            return "none"
        if v[0] == "int":
            return f"(some {paren(v[1])})"
        self.fail(node, f"optional int needed, got {v[0]}")

    def ctor(self, cls, node, env):
        if cls == "Span":
            b = self.bind_args(node, env, self.u.method("Span", "__init__"))
            start = self.as_int(b["start"], node)
            return ("m", f"spanInit {paren(start)} {self.opt_text(b['end'], node)} {paren(self.as_bool(b['reverse'], node))}", "fsp")
        if cls == "_LostSpan":
            b = self.bind_args(node, env, self.u.method("_LostSpan", "__init__"))
            return ("fsp", f"lostInit {paren(self.as_int(b['length'], node))}")
        if cls == "FeatureMap":
            kws = {k.arg: k.value for k in node.keywords}
            if node.args or set(kws) != {"spans", "parent_length"}:
                self.fail(node, "FeatureMap(...) is translated with keywords spans= and parent_length= only")
            sp = self.expr(kws["spans"], env)
            pl = self.as_int(self.expr(kws["parent_length"], env), node)
            if sp[0] == "fsps":
                return ("fm", sp[1], pl)
            if sp[0] == "m" and sp[2] == "fsps":
                return ("m", sp[1], "fm:" + pl)
            self.fail(node, "spans= of a FeatureMap")
        self.fail(node, f"constructor of {cls}")

    def self_class(self, env):
        k = env.get("self", ("?",))[0]
        return {"span": "Span", "lost": "_LostSpan", "fm": "FeatureMap"}.get(k)

    def call(self, node, env):
        f = node.func
        # constructors
        if isinstance(f, ast.Name) and f.id in ("Span", "_LostSpan"):
            return self.ctor(f.id, node, env)
        if isinstance(f, ast.Name) and f.id == "LostSpan":
            return self.ctor("_LostSpan", node, env)   # S4
        if isinstance(f, ast.Attribute) and f.attr == "__class__" and isinstance(f.value, ast.Name) and f.value.id == "self":
            return self.ctor(self.self_class(env), node, env)
        if (isinstance(f, ast.Call) and isinstance(f.func, ast.Name) and f.func.id == "type" and len(f.args) == 1
                and isinstance(f.args[0], ast.Name) and f.args[0].id == "self"):
            return self.ctor(self.self_class(env), node, env)
        if (isinstance(f, ast.Attribute) and f.attr == "from_locations" and src(f.value) == "self.__class__"
                and self.self_class(env) == "FeatureMap"):
            kws = {k.arg: k.value for k in node.keywords}
            if node.args or set(kws) != {"locations", "parent_length"}:
                self.fail(node, "from_locations keywords")
            locs = self.expr(kws["locations"], env)
            pl = self.as_int(self.expr(kws["parent_length"], env), node)
            if locs[0] != "pairs":
                self.fail(node, "locations= must be a list of pairs")
            return ("m", f"FMap.fromLocations {paren(locs[1])} {paren(pl)}", "fmrec")   # S6
        if isinstance(f, ast.Name) and f.id == "_spans_from_locations":
            kws = {k.arg: k.value for k in node.keywords}
            if node.args or set(kws) != {"locations", "parent_length"}:
                self.fail(node, "_spans_from_locations keywords")
            locs = self.expr(kws["locations"], env)
            pl = self.as_int(self.expr(kws["parent_length"], env), node)
            if locs[0] != "pairs":
                self.fail(node, "locations= must be a list of pairs")
            return ("m", f"FMap.spansFromLocations {paren(locs[1])} {paren(pl)}", "fsps")   # S6
        if isinstance(f, ast.Name) and f.id == "isinstance" and len(node.args) == 2 and src(node.args[1]) == "int":
            v = self.expr(node.args[0], env)      # S9: positions are python ints (the array form is not translated)
            if v[0] == "int":
                return ("bool", "true")
            self.fail(node, f"isinstance(<{v[0]}>, int)")
        if isinstance(f, ast.Name):
            args = [self.expr(a, env) for a in node.args]
            if node.keywords:
                self.fail(node, "keyword arguments")
            if f.id in ("min", "max") and len(args) == 2 and args[0][0] == "optint" and args[1][0] == "int":
                # S8: None propagates (python: TypeError)
                return ("optint", f"opt{f.id.capitalize()} {paren(args[0][1])} {paren(args[1][1])}")
            if f.id == "isinstance" and len(args) == 0:
                pass
            if f.id in ("min", "max") and len(args) == 2:
                return ("int", f"{f.id} {paren(self.as_int(args[0], node))} {paren(self.as_int(args[1], node))}")
            if f.id == "abs" and len(args) == 1:
                return ("int", f"pyAbs {paren(self.as_int(args[0], node))}")
            if f.id == "int" and len(args) == 1 and args[0][0] == "int":
                return args[0]
            if f.id in ("list", "tuple") and len(args) == 1 and args[0][0] == "fsps":
                return args[0]
            if f.id == "len" and len(args) == 1 and args[0][0] == "fm":
                return ("int", f"(fmPost {paren(args[0][1])} {paren(args[0][2])}).length")
            if f.id == "span_and_span" and len(args) == 2 and all(
                    a[0] == "tuple" and len(a[1]) == 2 and all(x[0] == "int" for x in a[1]) for a in args):
                flat = " ".join(paren(x[1]) for a in args for x in a[1])
                return ("m", f"spanAndSpan {flat}", "optpair")
            if f.id == "_norm_index" and len(args) == 3:
                return ("int", f"normIndex {self.opt_text(args[0], node)} {paren(self.as_int(args[1], node))} {paren(self.as_int(args[2], node))}")
            if f.id == "_norm_slice" and len(args) == 2:
                L = paren(self.as_int(args[1], node))
                if args[0][0] == "sliceobj":
                    a = args[0]
                    return ("tuple3", f"normSliceSlice {paren(a[1])} {paren(a[2])} {paren(a[3])} {L}")
                if args[0][0] == "int":
                    return ("m", f"normSliceInt {paren(args[0][1])} {L}", "tuple3")
                self.fail(node, f"_norm_slice of a {args[0][0]}")
            self.fail(node, "call")
        if isinstance(f, ast.Attribute) and src(f) == "numpy.array" and len(node.args) == 1 \
                and all(k.arg == "dtype" for k in node.keywords):
            v = self.expr(node.args[0], env)     # S7: an array of pairs is the list of pairs
            if v[0] in ("pairs", "intlist"):
                return v
            self.fail(node, f"numpy.array of a {v[0]}")
        if isinstance(f, ast.Attribute) and f.attr == "min" and not node.args and not node.keywords:
            recv = self.expr(f.value, env)
            if recv[0] == "intlist" and len(recv[1]) == 1:
                return ("int", recv[1][0])      # S7: the minimum of a one-element array
            self.fail(node, f".min() of a {recv[0]}")
        if isinstance(f, ast.Attribute):
            recv = self.expr(f.value, env)
            if recv[0] == "fsp" and not node.args and not node.keywords and f.attr == "reversed":
                return ("m", f"fspReversed {paren(recv[1])}", "fsp")
            if recv[0] == "fsps" and f.attr == "__len__":
                return ("int", f"({recv[1]}.length : Int)")
        self.fail(node, "call")

    def listcomp(self, node, env):
        if len(node.generators) != 1 or node.generators[0].is_async:
            self.fail(node, "comprehension")
        g = node.generators[0]
        it = self.expr(g.iter, env)
        if it[0] != "fsps" or not isinstance(g.target, ast.Name):
            self.fail(node, "comprehension over something other than the spans of a map")
        v = ln(g.target.id)
        env2 = dict(env)
        env2[g.target.id] = ("fsp", v)
        xs = it[1]
        for c in g.ifs:
            cond = self.as_bool(self.expr(c, env2), node)
            xs = f"List.filter (fun {v} => {cond}) {paren(xs)}"
        elt = self.expr(node.elt, env2)
        if elt[0] == "fsp":
            if elt[1] == v:
                return ("fsps", xs)
            return ("fsps", f"List.map (fun {v} => {elt[1]}) {paren(xs)}")
        if elt[0] == "m" and elt[2] == "fsp":
            return ("m", f"mapE (fun {v} => {elt[1]}) {paren(xs)}", "fsps")
        if elt[0] == "tuple" and len(elt[1]) == 2:
            return ("pairs", f"List.map (fun {v} => {self.tuple_text(elt, node)}) {paren(xs)}")
        self.fail(node, "comprehension element")

    # ------------------------------------------------------------------ statements
    def ret_text(self, v, node):
        """lean text of a returned value of the function's result kind"""
        r = self.ret
        if r == "int":
            return self.as_int(v, node)
        if r == "bool":
            return self.as_bool(v, node)
        if r == "fsp" and v[0] == "fsp":
            return v[1]
        if r == "fsps" and v[0] == "fsps":
            return v[1]
        if r == "fsps" and v[0] == "selfref":
            return f"[{v[1]}]"
        if r == "pairs" and v[0] == "pairs":
            return v[1]
        if r == "fm" and v[0] == "fm":
            return f"(⟨{v[1]}, {v[2]}⟩ : FMap.FM)"
        if r == "optpair" and v[0] == "tuple" and len(v[1]) == 2:
            if all(x[0] == "none" for x in v[1]):
                return "none"
            if all(x[0] == "int" for x in v[1]):
                return f"some ({v[1][0][1]}, {v[1][1][1]})"
        if r in ("tuple3",) and v[0] == "tuple" and len(v[1]) == 3:
            a, b, c = v[1]
            return f"({self.as_int(a, node)}, {self.as_int(b, node)}, {self.opt_text(c, node)})"
        if r in ("triple_sib",) and v[0] == "tuple" and len(v[1]) == 3:
            return self.tuple_text(v, node)
        self.fail(node, f"return value of kind {v[0]} where {r} is expected")

    def wrap(self, text):
        return f".ok ({text})" if self.monadic else text

    def terminates(self, stmts):
        for s in stmts:
            if isinstance(s, (ast.Return, ast.Raise, ast.Continue, ast.Break)):
                return True
            if isinstance(s, ast.If) and s.orelse and self.terminates(s.body) and self.terminates(s.orelse):
                return True
        return False

    def dropped_stmt(self, s):
        """S2: statements that only compute tidy flags / value / serialisation bookkeeping"""
        if isinstance(s, ast.Expr) and isinstance(s.value, ast.Constant) and isinstance(s.value.value, str):
            return True
        if isinstance(s, ast.Assign) and len(s.targets) == 1:
            t = s.targets[0]
            if isinstance(t, ast.Name) and t.id in UNMODELLED:
                return True
            if isinstance(t, ast.Name) and t.id == "dtype" and "dtype" in src(s.value):
                return True    # S7: numpy dtype bookkeeping
            if isinstance(t, ast.Attribute) and t.attr in UNMODELLED:
                return True
            if self.f.name == "__init__" and isinstance(t, ast.Name) and t.id in ("d", "x", "exclude"):
                # `d = locals()`, the tuple of names excluded from the serialisable dict
                return True
        if isinstance(s, ast.If):
            # an `if` whose arms only touch unmodelled attributes
            if all(self.dropped_stmt(b) for b in s.body) and all(self.dropped_stmt(b) for b in s.orelse) and self.only_unmodelled_test(s.test):
                return True
        if isinstance(s, ast.Global):
            return True
        return False

    def only_unmodelled_test(self, t):
        names = {n.attr for n in ast.walk(t) if isinstance(n, ast.Attribute)} | {n.id for n in ast.walk(t) if isinstance(n, ast.Name)}
        return bool(names & UNMODELLED) or src(t) == "result"

    def block(self, stmts, env, ind):
        pad = "  " * ind
        while stmts and self.dropped_stmt(stmts[0]):
            stmts = stmts[1:]
        if not stmts:
            if self.loops:
                return pad + self.loop_continue(env, None)
            if self.mk is not None:
                return pad + self.wrap(self.mk(self, env))
            raise TranslationError(f"{self.f.name}: control falls off the end of the function")
        s, rest = stmts[0], stmts[1:]
        self.stmts += 1
        if isinstance(s, ast.Continue):
            if not self.loops:
                self.fail(s, "continue outside a loop")
            return pad + self.loop_continue(env, s)
        if isinstance(s, ast.Break):
            if not self.loops:
                self.fail(s, "break outside a loop")
            return pad + self.loop_break(env, s)
        if isinstance(s, ast.Return) and self.loops:
            self.fail(s, "return inside a loop")
        if (isinstance(s, ast.Expr) and isinstance(s.value, ast.Call) and isinstance(s.value.func, ast.Attribute)
                and s.value.func.attr == "append" and env.get(src(s.value.func.value), ("?",))[0] in ("pairs", "ints", "quads", "fsps")
                and len(s.value.args) == 1 and not s.value.keywords):
            n = src(s.value.func.value)
            kind = env[n][0]
            v = self.expr(s.value.args[0], env)
            env2 = dict(env)
            env2[n] = (kind, lname(n))
            if kind in ("pairs", "quads"):
                if v[0] != "tuple" or len(v[1]) != (2 if kind == "pairs" else 4) or any(x[0] != "int" for x in v[1]):
                    self.fail(s, f"append of something other than a tuple of ints to a list of {kind}")
                item = self.tuple_text(v, s)
            elif kind == "fsps":
                if v[0] == "m" and v[2] == "fsp":
                    if not self.monadic:
                        self.fail(s, "a constructor that may raise in a function declared pure")
                    tn = self.fresh("sp")
                    return (f"{pad}match {v[1]} with\n{pad}| .error e => .error e\n{pad}| .ok {tn} =>\n"
                            f"{pad}  let {lname(n)} := {paren(env[n][1])} ++ [{tn}]\n{self.block(rest, env2, ind + 1)}")
                if v[0] != "fsp":
                    self.fail(s, "append of something other than a span")
                item = v[1]
            else:
                item = self.as_int(v, s)
            return f"{pad}let {lname(n)} := {paren(env[n][1])} ++ [{item}]\n{self.block(rest, env2, ind)}"
        if (isinstance(s, ast.Expr) and isinstance(s.value, ast.Call) and isinstance(s.value.func, ast.Attribute)
                and s.value.func.attr == "sort" and env.get(src(s.value.func.value), ("?",))[0] == "quads"
                and not s.value.args and not s.value.keywords):
            n = src(s.value.func.value)        # S10: list.sort() of 4-tuples of ints = lexicographic insertion sort
            env2 = dict(env)
            env2[n] = ("quads", lname(n))
            return f"{pad}let {lname(n)} := sortQ {paren(env[n][1])}\n{self.block(rest, env2, ind)}"
        if isinstance(s, ast.Return):
            if s.value is None:
                self.fail(s, "bare return")
            v = self.expr(s.value, env)
            if v[0] == "m":
                if not self.monadic:
                    self.fail(s, "a call that may raise in a function declared pure")
                return self.ret_m(v, s, pad)
            return pad + self.wrap(self.ret_text(v, s))
        if isinstance(s, ast.Raise):
            if not self.monadic:
                self.fail(s, "raise in a function declared pure")
            exc = s.exc.func.id if isinstance(s.exc, ast.Call) and isinstance(s.exc.func, ast.Name) else getattr(s.exc, "id", None)
            if exc not in ERR:
                self.fail(s, "exception class")
            return pad + f".error .{ERR[exc]}"
        if isinstance(s, ast.Assert):
            if not self.monadic and self.as_prop(self.expr(s.test, env), s) != "True":
                self.fail(s, "assert in a function declared pure")
            c0 = self.as_prop(self.expr(s.test, env), s)
            if c0 == "True":
                return self.block(rest, env, ind)     # `x is not None` of an int: holds
            c = c0
            return f"{pad}if {c} then\n{self.block(rest, env, ind + 1)}\n{pad}else .error .assertionError"
        if isinstance(s, ast.If):
            return self.if_stmt(s, rest, env, ind)
        if isinstance(s, ast.AugAssign):
            if not isinstance(s.target, ast.Name):
                self.fail(s, "augmented assignment target")
            node = ast.BinOp(left=ast.Name(id=s.target.id, ctx=ast.Load()), op=s.op, right=s.value)
            ast.copy_location(node, s)
            return self.assign([s.target], node, rest, env, ind, s)
        if isinstance(s, ast.Assign):
            return self.assign(s.targets, s.value, rest, env, ind, s)
        if isinstance(s, ast.For):
            return self.for_fold(s, rest, env, ind)
        if isinstance(s, ast.Expr) and isinstance(s.value, ast.Call):
            c = s.value
            # self._new_init(start, end, reverse): fills self.start / self.end / self.reverse
            if (isinstance(c.func, ast.Attribute) and src(c.func) == "self._new_init" and self.f.name == "__init__"):
                b = self.bind_args(c, env, self.u.method("Span", "_new_init"))
                call = f"spanNewInit {paren(self.as_int(b['start'], c))} {self.opt_text(b['end'], c)} {paren(self.as_bool(b['reverse'], c))}"
                env2 = dict(env)
                env2["self"] = ("span", "self_start", "self_end", "self_reverse")
                return f"{pad}let (self_start, self_end, self_reverse) := {call}\n{self.block(rest, env2, ind)}"
        self.fail(s, "statement")

    def ret_m(self, v, node, pad):
        kind = v[2]
        if kind == self.ret:
            return pad + v[1]
        if kind == "fmrec" and self.ret == "fm":
            return pad + v[1]
        if kind.startswith("fm:") and self.ret == "fm":
            pl = kind[3:]
            return f"{pad}match {v[1]} with\n{pad}| .error e => .error e\n{pad}| .ok sp => .ok (⟨sp, {pl}⟩ : FMap.FM)"
        self.fail(node, f"returns a {kind} where {self.ret} is expected")

    def assign(self, targets, value, rest, env, ind, s):
        pad = "  " * ind
        if len(targets) != 1:
            self.fail(s, "chained assignment")
        t = targets[0]
        env2 = dict(env)
        if isinstance(t, ast.Attribute) and isinstance(t.value, ast.Name) and t.value.id == "self":
            if self.mk is None:
                self.fail(s, "attribute assignment outside __init__")
            v = self.expr(value, env)
            name = "self_" + t.attr.lstrip("_")
            if v[0] == "emptylist":
                k = self.list_kind("self." + t.attr, s)
                env2["self." + t.attr] = (k, name)
                return f"{pad}let {name} : {self.KIND_TY[k]} := []\n{self.block(rest, env2, ind)}"
            if v[0] == "fsps":
                env2["self." + t.attr] = ("fsps", name)
                return f"{pad}let {name} := {v[1]}\n{self.block(rest, env2, ind)}"
            if v[0] in ("int", "bool"):
                env2["self." + t.attr] = (v[0], name)
                return f"{pad}let {name} := {v[1]}\n{self.block(rest, env2, ind)}"
            if v[0] == "optint" or v[0] == "none":
                env2["self." + t.attr] = ("optint", name)
                return f"{pad}let {name} : Option Int := {self.opt_text(v, s)}\n{self.block(rest, env2, ind)}"
            self.fail(s, f"stored attribute of kind {v[0]}")
        if isinstance(t, ast.Name):
            v = self.expr(value, env)
            name = ln(t.id)
            if v[0] == "emptylist":
                k = self.list_kind(t.id, s)
                env2[t.id] = (k, name)
                return f"{pad}let {name} : {self.KIND_TY[k]} := []\n{self.block(rest, env2, ind)}"
            if v[0] == "intlist":
                env2[t.id] = v
                return self.block(rest, env2, ind)
            if v[0] == "m":
                if not self.monadic:
                    self.fail(s, "a call that may raise in a function declared pure")
                kind = v[2]
                if kind == "tuple3":
                    self.fail(s, "a 3-tuple must be unpacked")
                env2[t.id] = (kind, name)
                return (f"{pad}match {v[1]} with\n{pad}| .error e => .error e\n{pad}| .ok {name} =>\n"
                        f"{self.block(rest, env2, ind + 1)}")
            if v[0] in ("int", "fsp", "fsps", "pairs", "quads", "ints"):
                env2[t.id] = (v[0], name)
                return f"{pad}let {name} := {v[1]}\n{self.block(rest, env2, ind)}"
            if v[0] in ("bool", "prop"):
                env2[t.id] = ("bool", name)
                return f"{pad}let {name} : Bool := {self.as_bool(v, s)}\n{self.block(rest, env2, ind)}"
            if v[0] in ("optint", "none"):
                env2[t.id] = ("optint", name)
                return f"{pad}let {name} : Option Int := {self.opt_text(v, s)}\n{self.block(rest, env2, ind)}"
            if v[0] == "tuple":
                env2[t.id] = v
                return self.block(rest, env2, ind)
            self.fail(s, f"assignment of a {v[0]}")
        if isinstance(t, ast.Tuple) and all(isinstance(e, ast.Name) or (isinstance(e, ast.Attribute) and src(e.value) == "self"
                                                                          and self.mk is not None) for e in t.elts):
            names = [src(e) for e in t.elts]
            v = self.expr(value, env)
            kinds3 = ["int", "int", "optint"]
            if v[0] == "tuple3" and len(names) == 3:
                for n, k in zip(names, kinds3):
                    env2[n] = (k, lname(n))
                return f"{pad}let ({', '.join(lname(n) for n in names)}) := {v[1]}\n{self.block(rest, env2, ind)}"
            if v[0] == "m" and v[2] == "tuple3" and len(names) == 3:
                for n, k in zip(names, kinds3):
                    env2[n] = (k, lname(n))
                return (f"{pad}match {v[1]} with\n{pad}| .error e => .error e\n{pad}| .ok ({', '.join(lname(n) for n in names)}) =>\n"
                        f"{self.block(rest, env2, ind + 1)}")
            if v[0] == "m" and v[2] == "optpair" and len(names) == 2:
                tn = self.fresh("r")
                env2[names[0]] = ("optfst", tn, names[0], names[1])
                env2[names[1]] = ("optsnd", tn, names[0], names[1])
                return (f"{pad}match {v[1]} with\n{pad}| .error e => .error e\n{pad}| .ok {tn} =>\n"
                        f"{self.block(rest, env2, ind + 1)}")
            if v[0] == "tuple" and len(v[1]) == len(names):
                comps = []
                for n, x in zip(names, v[1]):
                    if x[0] == "int":
                        env2[n] = ("int", lname(n))
                        comps.append(x[1])
                    elif x[0] in ("bool", "prop"):
                        env2[n] = ("bool", lname(n))
                        comps.append(self.as_bool(x, s))
                    elif x[0] in ("optint", "none"):
                        env2[n] = ("optint", lname(n))
                        comps.append(f"({self.opt_text(x, s)} : Option Int)")
                    else:
                        self.fail(s, f"tuple assignment of a {x[0]}")
                # simultaneous: the right-hand side is evaluated with the old bindings
                return f"{pad}let ({', '.join(lname(n) for n in names)}) := ({', '.join(comps)})\n{self.block(rest, env2, ind)}"
            if v[0] == "span_pair":
                pass
            self.fail(s, "tuple assignment")
        self.fail(s, "assignment target")

    def if_stmt(self, s, rest, env, ind):
        pad = "  " * ind
        t = s.test
        body_rest = s.body if self.terminates(s.body) else s.body + rest
        else_rest = (s.orelse if self.terminates(s.orelse) else s.orelse + rest) if s.orelse else rest
        # isinstance(start, Span): S3
        if isinstance(t, ast.Call) and isinstance(t.func, ast.Name) and t.func.id == "isinstance" and src(t.args[1]) in ("Span", "property"):
            return self.block(else_rest, env, ind)     # S3; `property`: artefact of dataclasses, spans are given
        # narrowing of an optional
        if (isinstance(t, ast.Compare) and len(t.ops) == 1 and isinstance(t.ops[0], (ast.Is, ast.IsNot))
                and isinstance(t.left, ast.Name) and env.get(t.left.id, ("?",))[0] == "optint"
                and isinstance(t.comparators[0], ast.Constant) and t.comparators[0].value is None):
            n = t.left.id
            v = ln(n)
            env_some = dict(env)
            env_some[n] = ("int", v)
            env_none = dict(env)
            env_none[n] = ("none",)
            none_b, some_b = (body_rest, else_rest) if isinstance(t.ops[0], ast.Is) else (else_rest, body_rest)
            return (f"{pad}match {env[n][1]} with\n{pad}| none =>\n{self.block(none_b, env_none, ind + 1)}\n"
                    f"{pad}| some {v} =>\n{self.block(some_b, env_some, ind + 1)}")
        # `i1 is None` / `result[0] is None` where (i1, i2) / result is the pair-or-(None, None) a function returned
        if (isinstance(t, ast.Compare) and len(t.ops) == 1 and isinstance(t.ops[0], (ast.Is, ast.IsNot))
                and isinstance(t.comparators[0], ast.Constant) and t.comparators[0].value is None):
            pv = None
            if isinstance(t.left, ast.Name) and env.get(t.left.id, ("?",))[0] in ("optfst", "optsnd"):
                _, pv, n1, n2 = env[t.left.id]
                some_env = {n1: ("int", ln(n1)), n2: ("int", ln(n2))}
                none_env = {n1: ("none",), n2: ("none",)}
                pat = f"({ln(n1)}, {ln(n2)})"
            elif (isinstance(t.left, ast.Subscript) and isinstance(t.left.value, ast.Name)
                  and env.get(t.left.value.id, ("?",))[0] == "optpair" and isinstance(t.left.slice, ast.Constant)
                  and t.left.slice.value in (0, 1)):
                n = t.left.value.id
                pv = env[n][1]
                c0, c1 = f"{ln(n)}_0", f"{ln(n)}_1"
                some_env = {n: ("tuple", [("int", c0), ("int", c1)])}
                none_env = {n: ("tuple", [("none",), ("none",)])}
                pat = f"({c0}, {c1})"
            if pv is not None:
                env_some, env_none = dict(env), dict(env)
                env_some.update(some_env)
                env_none.update(none_env)
                none_b, some_b = (body_rest, else_rest) if isinstance(t.ops[0], ast.Is) else (else_rest, body_rest)
                return (f"{pad}match {pv} with\n{pad}| none =>\n{self.block(none_b, env_none, ind + 1)}\n"
                        f"{pad}| some {pat} =>\n{self.block(some_b, env_some, ind + 1)}")
        c = self.as_prop(self.expr(t, env), s)
        return f"{pad}if {c} then\n{self.block(body_rest, env, ind + 1)}\n{pad}else\n{self.block(else_rest, env, ind + 1)}"

    # ---- a `for` loop whose body only assigns: List.foldl over the tuple of assigned variables
    def assigned_names(self, stmts, out):
        for s in stmts:
            if isinstance(s, ast.Assign):
                for t in s.targets:
                    for e in (t.elts if isinstance(t, ast.Tuple) else [t]):
                        k = src(e)
                        if k not in out:
                            out.append(k)
            elif isinstance(s, ast.AugAssign):
                k = src(s.target)
                if k not in out:
                    out.append(k)
            elif isinstance(s, ast.If):
                self.assigned_names(s.body, out)
                self.assigned_names(s.orelse, out)
            elif isinstance(s, ast.Expr) and isinstance(s.value, ast.Call) and isinstance(s.value.func, ast.Attribute) and s.value.func.attr == "append":
                k = src(s.value.func.value)
                if k not in out:
                    out.append(k)
            elif isinstance(s, ast.Expr) and isinstance(s.value, ast.Constant):
                pass
            elif isinstance(s, ast.For):
                for e in (s.target.elts if isinstance(s.target, ast.Tuple) else [s.target]):
                    if src(e) not in out:
                        out.append(src(e))
                self.assigned_names(s.body, out)
            elif isinstance(s, (ast.Continue, ast.Break, ast.Raise, ast.Assert)):
                pass
            else:
                self.fail(s, "statement in a loop (assignments, append, if, for, continue, break, raise are translated)")
        return out

    KIND_TY = {"int": "Int", "bool": "Bool", "optint": "Option Int", "pairs": "List (Int × Int)", "fsps": "List FMap.FSp",
               "ints": "List Int", "quads": "List (Int × Int × Int × Int)"}

    def list_kind(self, target, node):
        """kind of a list that starts as `[]`: read off the `.append` calls on it in this function"""
        kinds = set()
        for nd in ast.walk(self.f):
            if (isinstance(nd, ast.Call) and isinstance(nd.func, ast.Attribute) and nd.func.attr == "append"
                    and src(nd.func.value) == target and len(nd.args) == 1):
                a = nd.args[0]
                if isinstance(a, ast.Tuple):
                    kinds.add({2: "pairs", 4: "quads"}.get(len(a.elts), "?"))
                elif isinstance(a, ast.Call) and isinstance(a.func, ast.Name) and a.func.id in ("Span", "LostSpan", "_LostSpan"):
                    kinds.add("fsps")
                else:
                    kinds.add("ints")
        if len(kinds) != 1 or "?" in kinds:
            self.fail(node, f"cannot tell what the list {target} holds")
        return kinds.pop()

    def state_text(self, env, node):
        """the current values of the loop-carried variables of the innermost loop"""
        lp = self.loops[-1]
        out = []
        for n, k in lp["state"]:
            v = env[n]
            if k == "optint":
                out.append(self.opt_text(v, node or lp["node"]))
            elif k == "int":
                out.append(self.as_int(v, node or lp["node"]))
            elif k == "bool":
                out.append(self.as_bool(v, node or lp["node"]))
            elif v[0] == k:
                out.append(v[1])
            else:
                self.fail(node or lp["node"], f"loop variable {n} changes its kind from {k} to {v[0]}")
        return out

    def loop_continue(self, env, node):
        lp = self.loops[-1]
        args = [paren(a) for a in lp["cap_names"]] + [paren(a) for a in self.state_text(env, node)]
        return f"{lp['name']} {' '.join(args)} rest_"

    def loop_break(self, env, node):
        st = self.state_text(env, node)
        tup = st[0] if len(st) == 1 else "(" + ", ".join(st) + ")"
        return self.wrap(tup)

    def for_fold(self, s, rest, env, ind):
        """`for pat in xs: body` = a function defined by structural recursion over the list; the variables assigned in the
        body that exist before the loop are its state, `continue` / the end of the body recurse on the tail, `break`
        returns the state, `raise` is the error"""
        pad = "  " * ind
        if s.orelse:
            self.fail(s, "for ... else")
        it = self.expr(s.iter, env)
        env_body = dict(env)
        if it[0] == "pairs" and isinstance(s.target, ast.Tuple) and len(s.target.elts) == 2 and all(isinstance(e, ast.Name) for e in s.target.elts):
            targets = [e.id for e in s.target.elts]
            pat = "(" + ", ".join(ln(n) for n in targets) + ")"
            for n in targets:
                env_body[n] = ("int", ln(n))
            elem_ty = "Int × Int"
        elif it[0] == "quads" and isinstance(s.target, ast.Tuple) and len(s.target.elts) == 4 and all(isinstance(e, ast.Name) for e in s.target.elts):
            targets = [e.id for e in s.target.elts]
            pat = "(" + ", ".join(ln(n) for n in targets) + ")"
            for n in targets:
                env_body[n] = ("int", ln(n))
            elem_ty = "Int × Int × Int × Int"
        elif it[0] == "fsps" and isinstance(s.target, ast.Name):
            targets = [s.target.id]
            pat = ln(s.target.id)
            env_body[s.target.id] = ("fsp", pat)
            elem_ty = "FMap.FSp"
        else:
            self.fail(s, f"for loop over a {it[0]}")
        assigned = self.assigned_names(s.body, [])
        state = []
        for n in assigned:
            if n in targets:
                self.fail(s, f"the loop variable {n} is assigned in the body")
            if n in env:
                k = env[n][0]
                k = "optint" if k == "none" else k
                if k not in self.KIND_TY:
                    self.fail(s, f"loop-carried variable {n} of kind {k}")
                state.append((n, k))
        if not state:
            self.fail(s, "a loop without loop-carried variables")
        local = [n for n in assigned if n not in env] + targets
        for r in rest:
            for nd in ast.walk(r):
                if isinstance(nd, ast.Name) and isinstance(nd.ctx, ast.Load) and nd.id in local and nd.id not in env:
                    self.fail(nd, f"variable {nd.id} of the loop body is read after the loop")
        used = []
        for b in s.body:
            for nd in ast.walk(b):
                if isinstance(nd, ast.Name) and nd.id in env and nd.id not in used:
                    used.append(nd.id)
        snames = [n for n, _ in state]
        captured = []
        for n in used:
            if n in snames or n in targets or n == "self":
                continue
            k = env[n][0]
            if k in ("none", "dropped"):
                continue
            if k not in self.KIND_TY:
                self.fail(s, f"the loop body reads {n} of kind {k}")
            captured.append((n, k))
        for b in s.body:
            for nd in ast.walk(b):
                if (isinstance(nd, ast.Attribute) and isinstance(nd.value, ast.Name) and nd.value.id == "self"
                        and ("self." + nd.attr) not in snames):
                    self.fail(nd, "the loop body reads an attribute of self that is not loop-carried")
        self.nloops += 1
        name = f"{self.name}_loop{self.nloops}"
        for n, k in captured + state:
            env_body[n] = (k, lname(n))
        lp = {"name": name, "state": state, "cap_names": [lname(n) for n, _ in captured], "node": s}
        self.loops.append(lp)
        body = self.block(list(s.body), env_body, 2)
        self.loops.pop()
        st_ty = [self.KIND_TY[k] for _, k in state]
        rt = st_ty[0] if len(st_ty) == 1 else " × ".join(st_ty)
        if self.monadic:
            rt = f"Except FMap.FErr ({rt})"
        params = " ".join(f"({lname(n)} : {self.KIND_TY[k]})" for n, k in captured + state)
        st_names = [lname(n) for n, _ in state]
        base = st_names[0] if len(st_names) == 1 else "(" + ", ".join(st_names) + ")"
        self.aux.append(
            f"/-- the loop `for {src(s.target)} in {src(s.iter)}` of `{(self.owner + '.') if self.owner else ''}{self.f.name}` "
            f"(location.py l.{s.lineno}): state ({', '.join(st_names)}); the end of the body / `continue` recurse on the "
            f"tail, `break` returns the state -/\n"
            f"def {name} {params} : List ({elem_ty}) → {rt}\n  | [] => {self.wrap(base)}\n  | {pat} :: rest_ =>\n{body}\n")
        # the call
        args = []
        for n, k in captured:
            args.append(paren(env[n][1]))
        lp_env = {"state": state, "node": s}
        self.loops.append(lp_env)
        init = self.state_text(env, s)
        self.loops.pop()
        call = f"{name} {' '.join(args + [paren(a) for a in init] + [paren(it[1])])}"
        env2 = dict(env)
        for n, k in state:
            env2[n] = (k, lname(n))
        if self.monadic:
            return f"{pad}match {call} with\n{pad}| .error e => .error e\n{pad}| .ok {base} =>\n{self.block(rest, env2, ind + 1)}"
        return f"{pad}let {base} := {call}\n{self.block(rest, env2, ind)}"

    # ------------------------------------------------------------------ whole function
    def signature(self):
        ps = []
        for _, v in self.params:
            k = v[0]
            if k == "int":
                ps.append(f"({v[1]} : Int)")
            elif k == "bool":
                ps.append(f"({v[1]} : Bool)")
            elif k == "optint":
                ps.append(f"({v[1]} : Option Int)")
            elif k == "span":
                ps.append(f"({v[1]} {v[2]} : Int) ({v[3]} : Bool)")
            elif k == "lost":
                ps.append(f"({v[1]} : Int)")
            elif k == "sliceobj":
                ps.append(f"({v[1]} {v[2]} {v[3]} : Option Int)")
            elif k == "fsps":
                ps.append(f"({v[1]} : List FMap.FSp)")
            elif k == "pairs":
                ps.append(f"({v[1]} : List (Int × Int))")
            elif k == "fm":
                ps.append(f"({v[1]} : List FMap.FSp) ({v[2]} : Int)")
            elif k == "tuple":
                ps.append("(" + " ".join(x[1] for x in v[1]) + " : Int)")
            elif k in ("none", "dropped"):
                pass
            else:
                raise TranslationError(f"parameter kind {k}")
        rt = {"int": "Int", "bool": "Bool", "fsp": "FMap.FSp", "fsps": "List FMap.FSp", "fm": "FMap.FM",
              "optpair": "Option (Int × Int)", "tuple3": "Int × Int × Option Int", "triple_sib": "Int × Int × Bool",
              "pairs": "List (Int × Int)", "post": "Post"}[self.ret]
        if self.monadic:
            rt = f"Except FMap.FErr ({rt})" if " " in rt else f"Except FMap.FErr {rt}"
        return f"def {self.name} {' '.join(ps)} : {rt} :="

    def body_stmts(self):
        body = list(self.f.body)
        if self.variant is not None:
            # S1: try / except AttributeError = dispatch on the type of `other`
            body = [b for b in body if not self.dropped_stmt(b)]
            if len(body) != 1 or not isinstance(body[0], ast.Try) or len(body[0].handlers) != 1 or body[0].orelse or body[0].finalbody:
                raise TranslationError(f"{self.f.name}: expected a single try/except (type dispatch on `other`)")
            tr = body[0]
            h = tr.handlers[0]
            names = {src(h.type)} if not isinstance(h.type, ast.Tuple) else {src(e) for e in h.type.elts}
            if "AttributeError" not in names:
                raise TranslationError(f"{self.f.name}: the handler does not catch AttributeError")
            return tr.body if self.variant == "span" else h.body
        return body

    def compile(self):
        env = dict(getattr(self, "initial", {}))
        env.update({p: v for p, v in self.params})
        text = self.block(self.body_stmts(), env, 1)
        doc = f"/-- `{(self.owner + '.') if self.owner else ''}{self.f.name}` (location.py l.{self.f.lineno})"
        if self.variant:
            doc += f", `other` is a {'span' if self.variant == 'span' else 'number'}"
        return "".join(a + "\n" for a in self.aux) + f"{doc} -/\n{self.signature()}\n{text}\n"


HEADER = '''/-
  GENERATED by translator/c08_span2lean.py from cogent3/core/location.py -- do not edit.
  Regenerated from the CURRENT python source on every run of `./check C08`; `Props/C08Gen.lean` proves each definition
  equal to the hand model for all arguments.

  Conventions: S1 try/except AttributeError = dispatch on the type of `other` (`…Span` / `…Int`); S2 tidy flags, `value`
  and serialisation bookkeeping are not modelled; S3 `isinstance(start, Span)` is false; S4 an object is its fields, a
  stored span of unknown class is `FMap.FSp` and its methods dispatch on the constructor, `.start`/`.end` of a lost span
  read 0; S5 ZeroDivisionError is not modelled; S6 `from_locations` / `_spans_from_locations` are `FMap.fromLocations` /
  `FMap.spansFromLocations`; S7 a numpy array of pairs is the list, dtype dropped; S8 `min/max(None, y)` read None,
  `isinstance(spans, property)` is false; S9 positions are python ints; S10 `list.sort()` of int 4-tuples = `FMap.insertQ`
  insertion sort.  A `for` loop is a function `<fn>_loop<k>` by structural recursion over the list: accumulator = the
  variables the body assigns that exist before the loop; end of body / `continue` recurse, `break` returns the state.
-/
import CogentModel.Model.FMap
set_option linter.unusedVariables false
namespace CogentModel.C08Gen
open CogentModel

/-- python `x or c` for an optional int: `None` and `0` are falsy -/
def pyOr (x : Option Int) (c : Int) : Int :=
  match x with
  | none => c
  | some v => if v = 0 then c else v

/-- python `abs` -/
def pyAbs (x : Int) : Int := if x < 0 then -x else x

/-- python truthiness of an optional int -/
def pyTruthy (x : Option Int) : Prop := x ≠ none ∧ x ≠ some 0

instance (x : Option Int) : Decidable (pyTruthy x) := by unfold pyTruthy; exact inferInstance

/-- `min(x, y)` / `max(x, y)` where `x` may be None (S8: None propagates; python raises TypeError) -/
def optMin (x : Option Int) (y : Int) : Option Int :=
  match x with
  | none => none
  | some v => some (min v y)

def optMax (x : Option Int) (y : Int) : Option Int :=
  match x with
  | none => none
  | some v => some (max v y)

/-- the fields `FeatureMap.__post_init__` computes -/
structure Post where
  offsets : List Int
  useful : Bool
  complete : Bool
  start_ : Option Int
  end_ : Option Int
  length : Int
  deriving DecidableEq, Repr

/-- a sequential loop whose body may raise: the first error wins -/
def mapE {α β : Type} (f : α → Except FMap.FErr β) : List α → Except FMap.FErr (List β)
  | [] => .ok []
  | x :: xs =>
    match f x with
    | .error e => .error e
    | .ok y =>
      match mapE f xs with
      | .error e => .error e
      | .ok ys => .ok (y :: ys)

/-- `.start` / `.end` of a stored span (S4) -/
def fspStart : FMap.FSp → Int
  | .span s _ _ => s
  | .lost _ => 0

def fspEnd : FMap.FSp → Int
  | .span _ e _ => e
  | .lost _ => 0

def fspReverse : FMap.FSp → Bool
  | .span _ _ r => r
  | .lost _ => false

/-- `list.sort()` of a list of 4-tuples of ints (S10): lexicographic insertion sort -/
def sortQ (xs : List (Int × Int × Int × Int)) : List (Int × Int × Int × Int) := xs.foldr FMap.insertQ []

'''


def _span(prefix):
    return ("span", f"{prefix}_start", f"{prefix}_end", f"{prefix}_reverse")


def gen(path):
    text = Path(path).read_text()
    u = Unit(ast.parse(text))
    out, info = [], {}

    def emit(fn):
        out.append(fn.compile())
        info[fn.name] = fn.stmts

    S, O = _span("self"), _span("other")
    # ---- module functions
    emit(Fn(u, u.funcs["_norm_index"], "normIndex", [("i", ("optint", "i")), ("length", ("int", "length")), ("default", ("int", "default_"))], "int", False))
    emit(Fn(u, u.registered_variant("_norm_slice", "slice"), "normSliceSlice",
            [("index", ("sliceobj", "index_start", "index_stop", "index_step")), ("length", ("int", "length"))], "tuple3", False))
    emit(Fn(u, u.funcs["_norm_slice"], "normSliceInt", [("index", ("int", "index")), ("length", ("int", "length"))], "tuple3", True))
    f = u.funcs["span_and_span"]
    names = [a.arg for a in f.args.args]
    if len(names) != 2:
        raise TranslationError("span_and_span: two tuple parameters expected")
    emit(Fn(u, f, "spanAndSpan",
            [(names[0], ("tuple", [("int", "a1"), ("int", "a2")])), (names[1], ("tuple", [("int", "b1"), ("int", "b2")]))],
            "optpair", True))
    # ---- the loops of the coordinate-list helpers
    for py, lean in (("coords_minus_coords", "coordsMinusCoords"), ("coords_intersect", "coordsIntersect")):
        f = u.funcs.get(py)
        if f is None:
            raise TranslationError(f"{py} not found")
        names = [a.arg for a in f.args.args]
        if len(names) != 2:
            raise TranslationError(f"{py}: two parameters expected")
        emit(Fn(u, f, lean, [(names[0], ("pairs", ln(names[0]))), (names[1], ("pairs", ln(names[1])))], "pairs", True))
    # ---- Span
    emit(Fn(u, u.method("Span", "_new_init"), "spanNewInit",
            [("self", ("dropped",)), ("start", ("int", "start")), ("end", ("optint", "end_")), ("reverse", ("bool", "reverse"))],
            "triple_sib", False, owner="Span",
            mk=lambda fn, env: fn.tuple_text(("tuple", [env["self.start"], env["self.end"], env["self.reverse"]]), fn.f)))
    init = u.method("Span", "__init__")
    iparams = []
    for a in init.args.args:
        if a.arg == "self":
            iparams.append(("self", ("dropped",)))
        elif a.arg == "start":
            iparams.append(("start", ("int", "start")))
        elif a.arg == "end":
            iparams.append(("end", ("optint", "end_")))
        elif a.arg == "reverse":
            iparams.append(("reverse", ("bool", "reverse")))
        elif a.arg in UNMODELLED:
            iparams.append((a.arg, ("none",) if a.arg == "value" else ("dropped",)))
        else:
            raise TranslationError(f"Span.__init__: unexpected parameter {a.arg}")
    emit(Fn(u, init, "spanInit", iparams, "fsp", True, owner="Span",
            mk=lambda fn, env: f"FMap.FSp.span {env['self'][1]} {env['self'][2]} {env['self'][3]}"))
    linit = u.method("_LostSpan", "__init__")
    emit(Fn(u, linit, "lostInit", [("self", ("dropped",)), ("length", ("int", "length")), ("value", ("none",))], "fsp", False,
            owner="_LostSpan", mk=lambda fn, env: f"FMap.FSp.lost {paren(env['self.length'][1])}"))
    emit(Fn(u, u.method("Span", "__len__"), "spanLen", [("self", S)], "int", False, owner="Span"))
    for name in ("__contains__",):
        emit(Fn(u, u.method("Span", name), "spanContainsInt", [("self", S), ("other", ("int", "other"))], "bool", False, owner="Span", variant="int"))
        emit(Fn(u, u.method("Span", name), "spanContainsSpan", [("self", S), ("other", O)], "bool", False, owner="Span", variant="span"))
    emit(Fn(u, u.method("Span", "overlaps"), "spanOverlapsSpan", [("self", S), ("other", O)], "bool", False, owner="Span", variant="span"))
    for py in ("starts_before", "starts_after", "starts_at", "starts_inside", "ends_before", "ends_after", "ends_at", "ends_inside"):
        lean = "span" + "".join(w.capitalize() for w in py.split("_"))
        emit(Fn(u, u.method("SpanI", py), lean + "Int", [("self", S), ("other", ("int", "other"))], "bool", False, owner="SpanI", variant="int"))
        emit(Fn(u, u.method("SpanI", py), lean + "Span", [("self", S), ("other", O)], "bool", False, owner="SpanI", variant="span"))
    emit(Fn(u, u.method("Span", "reversed"), "spanReversed", [("self", S)], "fsp", True, owner="Span"))
    sl = ("sliceobj", "slice_start", "slice_stop", "slice_step")
    emit(Fn(u, u.method("Span", "__getitem__"), "spanGetitem", [("self", S), ("slice", sl)], "fsp", True, owner="Span"))
    emit(Fn(u, u.method("Span", "__getitem__"), "spanGetitemInt", [("self", S), ("slice", ("int", "index"))], "fsp", True, owner="Span"))
    emit(Fn(u, u.method("Span", "__mul__"), "spanMul", [("self", S), ("scale", ("int", "scale"))], "fsp", True, owner="Span"))
    emit(Fn(u, u.method("Span", "__truediv__"), "spanTruediv", [("self", S), ("scale", ("int", "scale"))], "fsp", True, owner="Span"))
    emit(Fn(u, u.method("Span", "reversed_relative_to"), "spanReversedRelativeTo", [("self", S), ("length", ("int", "length"))], "fsp", True, owner="Span"))
    # ---- _LostSpan
    L = ("lost", "self_length")
    emit(Fn(u, u.method("_LostSpan", "__len__"), "lostLen", [("self", L)], "int", False, owner="_LostSpan"))
    fn = Fn(u, u.method("_LostSpan", "reversed"), "lostReversed", [("self", L)], "fsp", False, owner="_LostSpan")
    fn.params = [("self", ("lostself", "self_length"))]
    out.append(_compile_selfret(fn, info))
    emit(Fn(u, u.method("_LostSpan", "__getitem__"), "lostGetitem", [("self", L), ("slice", sl)], "fsp", True, owner="_LostSpan"))
    emit(Fn(u, u.method("_LostSpan", "__getitem__"), "lostGetitemInt", [("self", L), ("slice", ("int", "index"))], "fsp", True, owner="_LostSpan"))
    emit(Fn(u, u.method("_LostSpan", "__mul__"), "lostMul", [("self", L), ("scale", ("int", "scale"))], "fsp", False, owner="_LostSpan"))
    emit(Fn(u, u.method("_LostSpan", "__truediv__"), "lostTruediv", [("self", L), ("scale", ("int", "scale"))], "fsp", True, owner="_LostSpan"))
    fn = Fn(u, u.method("_LostSpan", "reversed_relative_to"), "lostReversedRelativeTo", [], "fsp", False, owner="_LostSpan")
    fn.params = [("self", ("lostself", "self_length")), ("length", ("int", "length"))]
    out.append(_compile_selfret(fn, info))
    fn = Fn(u, u.method("_LostSpan", "remap_with"), "lostRemapWith", [], "fsps", False, owner="_LostSpan")
    fn.params = [("self", ("lostself", "self_length")), ("map", ("dropped",))]
    out.append(_compile_selfret(fn, info))
    # ---- dispatch on the class of a stored span (S4)
    out.append(DISPATCH)
    # ---- FeatureMap
    M, OM = ("fm", "self_spans", "self_parent_length"), ("fm", "other_spans", "other_parent_length")
    pi = u.method("FeatureMap", "__post_init__")
    pnames = [a.arg for a in pi.args.args]
    if pnames != ["self", "spans"]:
        raise TranslationError(f"FeatureMap.__post_init__: parameters {pnames}")
    fn = Fn(u, pi, "fmPost", [("self", ("fm", "spans", "parent_length"))], "post", False,
            owner="FeatureMap",
            mk=lambda fn, env: "{ offsets := %s, useful := %s, complete := %s, start_ := %s, end_ := %s, length := %s }" % (
                env["self.offsets"][1], fn.as_bool(env["self.useful"], fn.f), fn.as_bool(env["self.complete"], fn.f),
                fn.opt_text(env["self._start"], fn.f), fn.opt_text(env["self._end"], fn.f), fn.as_int(env["self.length"], fn.f)))
    fn.initial = {"spans": ("fsps", "spans")}     # the InitVar `spans` is what `self.spans` reads (S4)
    for fld in ("_start", "_end"):
        d = u.field_default("FeatureMap", fld)
        if d is None or not (isinstance(d, ast.Constant) and d.value is None):
            raise TranslationError(f"FeatureMap.{fld}: a dataclass field with default None is expected")
        fn.initial["self." + fld] = ("none",)
    emit(fn)
    emit(Fn(u, u.method("FeatureMap", "gaps"), "fmGaps", [("self", M)], "fm", True, owner="FeatureMap"))
    emit(Fn(u, u.method("FeatureMap", "nongap"), "fmNongap", [("self", M)], "fsps", True, owner="FeatureMap"))
    emit(Fn(u, u.method("FeatureMap", "inverse"), "fmInverse", [("self", M)], "fm", True, owner="FeatureMap"))
    for prop in ("start", "end"):
        emit(Fn(u, u.method("FeatureMap", prop), "fm" + prop.capitalize(), [("self", M)], "int", False, owner="FeatureMap"))
    emit(Fn(u, u.method("FeatureMap", "absolute_position"), "fmAbsolutePosition", [("self", M), ("rel_pos", ("int", "rel_pos"))], "int", True, owner="FeatureMap"))
    emit(Fn(u, u.method("FeatureMap", "relative_position"), "fmRelativePosition", [("self", M), ("abs_pos", ("int", "abs_pos"))], "int", True, owner="FeatureMap"))
    emit(Fn(u, u.method("FeatureMap", "__mul__"), "fmMul", [("self", M), ("scale", ("int", "scale"))], "fm", True, owner="FeatureMap"))
    emit(Fn(u, u.method("FeatureMap", "__truediv__"), "fmTruediv", [("self", M), ("scale", ("int", "scale"))], "fm", True, owner="FeatureMap"))
    emit(Fn(u, u.method("FeatureMap", "__add__"), "fmAdd", [("self", M), ("other", OM)], "fm", True, owner="FeatureMap"))
    emit(Fn(u, u.method("FeatureMap", "without_gaps"), "fmWithoutGaps", [("self", M)], "fm", False, owner="FeatureMap"))
    emit(Fn(u, u.method("FeatureMap", "get_coordinates"), "fmGetCoordinates", [("self", M)], "pairs", False, owner="FeatureMap"))
    return "".join(o + "\n" for o in out), info


def _compile_selfret(fn, info):
    """methods of _LostSpan that return `self` / `[self]`: the object is its length (S4)"""
    body = [b for b in fn.f.body if not fn.dropped_stmt(b)]
    if len(body) != 1 or not isinstance(body[0], ast.Return):
        raise TranslationError(f"_LostSpan.{fn.f.name}: a single return is expected")
    v = body[0].value
    if isinstance(v, ast.Name) and v.id == "self" and fn.ret == "fsp":
        text = "FMap.FSp.lost self_length"
    elif isinstance(v, ast.List) and len(v.elts) == 1 and src(v.elts[0]) == "self" and fn.ret == "fsps":
        text = "[FMap.FSp.lost self_length]"
    else:
        raise TranslationError(f"_LostSpan.{fn.f.name}: `return self` / `return [self]` expected, found `{src(body[0])}`")
    info[fn.name] = 1
    extra = "".join(f" ({v[1]} : Int)" for p, v in fn.params[1:] if v[0] == "int")
    rt = "FMap.FSp" if fn.ret == "fsp" else "List FMap.FSp"
    return (f"/-- `_LostSpan.{fn.f.name}` (location.py l.{fn.f.lineno}) -/\n"
            f"def {fn.name} (self_length : Int){extra} : {rt} :=\n  {text}\n")


DISPATCH = '''/-- `span * scale` on a stored span: dispatch on its class (S4) -/
def fspMul (sp : FMap.FSp) (scale : Int) : Except FMap.FErr FMap.FSp :=
  match sp with
  | .span s e r => spanMul s e r scale
  | .lost n => .ok (lostMul n scale)

/-- `span / scale` on a stored span -/
def fspTruediv (sp : FMap.FSp) (scale : Int) : Except FMap.FErr FMap.FSp :=
  match sp with
  | .span s e r => spanTruediv s e r scale
  | .lost n => lostTruediv n scale

/-- `span.reversed()` on a stored span -/
def fspReversed (sp : FMap.FSp) : Except FMap.FErr FMap.FSp :=
  match sp with
  | .span s e r => spanReversed s e r
  | .lost n => .ok (lostReversed n)

/-- `span[a:b]` on a stored span -/
def fspGetitem (sp : FMap.FSp) (a b step : Option Int) : Except FMap.FErr FMap.FSp :=
  match sp with
  | .span s e r => spanGetitem s e r a b step
  | .lost n => lostGetitem n a b step

/-- `span.reversed_relative_to(length)` on a stored span -/
def fspReversedRelativeTo (sp : FMap.FSp) (length : Int) : Except FMap.FErr FMap.FSp :=
  match sp with
  | .span s e r => spanReversedRelativeTo s e r length
  | .lost n => .ok (lostReversedRelativeTo n length)
'''


def translate(src_root):
    """-> (lean text or None, info, problems)"""
    core = Path(src_root) / "core"
    if not core.exists():
        core = Path(src_root) / "cogent3" / "core"
    try:
        body, info = gen(core / "location.py")
    except (TranslationError, SyntaxError, OSError, KeyError) as e:
        return None, {}, [f"location.py: {type(e).__name__}: {e}"]
    return HEADER + body + "end CogentModel.C08Gen\n", info, []


def write_if_changed(path, text):
    path = Path(path)
    if path.exists() and path.read_text() == text:
        return False
    path.parent.mkdir(parents=True, exist_ok=True)
    path.write_text(text)
    return True


if __name__ == "__main__":
    import sys

    lean, info, problems = translate(sys.argv[1] if len(sys.argv) > 1 else "/repo/src/cogent3")
    print(info, problems, file=sys.stderr)
    if lean:
        print(lean)
