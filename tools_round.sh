#!/bin/bash
# tools_round.sh <round-dir> <PROP> <tag>   e.g. tools_round.sh /tmp/r3 C05 r3
# for every <round-dir>/<PROP>/out/m<K>/ holding patch.diff + demo.py + meta.json: confirm the seeded change
# (tools_confirm_seed.sh: demo both ways + full pinned suite) into seeded/<PROP>-<tag>m<K>/, then run the property's
# quick check against it (tools_seedtest.sh) and append one line per change to <round-dir>/<PROP>/result.txt
rd=$1; prop=$2; tag=$3
cd /verif
for d in "$rd/$prop"/out/m*/; do
  k=$(basename "$d")
  [ -f "$d/patch.diff" ] && [ -f "$d/demo.py" ] && [ -f "$d/meta.json" ] || { echo "$prop $k incomplete" >> "$rd/$prop/result.txt"; continue; }
  name="$prop-$tag$k"
  c=$(./tools_confirm_seed.sh "$prop" "$d" "$name" 2>&1 | tail -1)
  if echo "$c" | grep -q " confirmed "; then
    s=$(./tools_seedtest.sh "$prop" "seeded/$name/patch.diff" quick 2>&1 | tail -4 | tr '\n' ' ' | cut -c1-700)
    echo "$name CONFIRMED | $s" >> "$rd/$prop/result.txt"
  else
    echo "$name $c" >> "$rd/$prop/result.txt"
  fi
done
