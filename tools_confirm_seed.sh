#!/bin/bash
# tools_confirm_seed.sh <PROP> <srcdir with patch.diff demo.py meta.json> <name>
# confirms a seeded change in a scratch worktree (demo passes without, fails with; pinned suite still passes)
# and stores it as /verif/seeded/<name>/ with confirm.json
prop=$1; src=$2; name=$3
wt=/tmp/wt_conf_$name
out=/verif/seeded/$name
git -C /repo worktree add -q "$wt" HEAD || exit 3
cd "$wt"
PYTHONPATH=$wt/src /venv/bin/python -W ignore "$src/demo.py" > /tmp/conf_$name.clean.log 2>&1; rc_clean=$?
if ! git apply "$src/patch.diff"; then echo "$name: PATCH-DOES-NOT-APPLY"; git -C /repo worktree remove --force "$wt"; exit 3; fi
PYTHONPATH=$wt/src /venv/bin/python -W ignore "$src/demo.py" > /tmp/conf_$name.mut.log 2>&1; rc_mut=$?
PYTHONPATH=$wt/src /venv/bin/python -m pytest -q -p no:cacheprovider --timeout=900 --continue-on-collection-errors --junitxml=/tmp/conf_$name.xml > /tmp/conf_$name.tests.log 2>&1
suite=$(python3 - /tmp/conf_$name.xml "$wt" <<'PY'
import json, sys, xml.etree.ElementTree as ET
base = set(json.load(open("/root/.vp/BASELINE.json"))["stable_pass"])
wt = sys.argv[2]
passed = set()
for tc in ET.parse(sys.argv[1]).getroot().iter("testcase"):
    tid = ((tc.get("classname") or "") + "::" + (tc.get("name") or "")).replace(wt, "/repo")
    if tc.find("failure") is None and tc.find("error") is None and tc.find("skipped") is None: passed.add(tid)
missing = sorted(base - passed)
print(json.dumps(dict(baseline=len(base), passed=len(passed), baseline_not_passing=missing[:20], n_missing=len(missing))))
PY
)
cd /verif
git -C /repo worktree remove --force "$wt"
mkdir -p "$out"
cp "$src/patch.diff" "$src/demo.py" "$src/meta.json" "$out/"
python3 - "$out" "$prop" "$rc_clean" "$rc_mut" "$suite" <<'PY'
import json, sys
out, prop, rc_clean, rc_mut, suite = sys.argv[1:6]
suite = json.loads(suite)
ok = int(rc_clean) == 0 and int(rc_mut) != 0 and suite["n_missing"] == 0
json.dump(dict(property=prop, demo_rc_without_patch=int(rc_clean), demo_rc_with_patch=int(rc_mut), pinned_suite=suite, confirmed=ok,
               how="scratch worktree of /repo HEAD; demo.py run without and with patch.diff; full pinned suite (BASELINE cmd) with the patch applied, compared with BASELINE.json stable_pass"),
          open(out + "/confirm.json", "w"), indent=1)
print(out, "confirmed" if ok else "NOT-CONFIRMED", rc_clean, rc_mut, suite["n_missing"])
PY
